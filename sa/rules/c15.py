"""C15 channel numbers stay attached to their items (DESIGN 3/C15)."""
from __future__ import annotations

import ast

from .. import facts
from ..cfg import CFG
from ..codecs import Codecs, parallel_pairs
from ..index import is_self_attr, walk_no_nested
from ..layout import Field, Install, Rep, Sub, walk_terms, has_stream
from ..report import AnalysisError, head, norm
from ..unify import normalise

EXPECTED = {"EMG": ("_emgMap", "_signals"), "ForcePlatformsCalibrationDataBlock": ("_platformMap", "_platforms"),
            "ForcePlatformsDataBlock": ("_plat_map", "_platforms")}


def resolve_expected(prog):
    """The instance table names the three channel-mapped classes; which two attributes form the pair is read off the code (the
    adder appends to exactly two list attributes: the one that receives the adder's item parameter is the item list, the other the
    channel map), so renaming a private attribute is not an event.  Updates EXPECTED in place and returns parallel_pairs(prog)."""
    pairs = parallel_pairs(prog)
    for cname, (amap, items) in list(EXPECTED.items()):
        if cname not in pairs:
            raise AnalysisError(f"anchor vanished: parallel lists of {cname} (no method appends to two list attributes)")
        a, b, c, f = pairs[cname]
        if {a, b} == {amap, items}:
            continue
        sn = f.self_name or "self"
        item_param = f.params[0] if f.params else None
        role = {}
        for x in walk_no_nested(f.node):
            if isinstance(x, ast.Call) and isinstance(x.func, ast.Attribute) and x.func.attr == "append" and is_self_attr(x.func.value, self_name=sn) and x.args:
                role.setdefault(x.func.value.attr, set()).add(isinstance(x.args[0], ast.Name) and x.args[0].id == item_param)
        its = [k for k, v in role.items() if v == {True}]
        maps = [k for k, v in role.items() if v == {False}]
        if len(its) == 1 and len(maps) == 1:
            EXPECTED[cname] = (maps[0], its[0])
        else:
            raise AnalysisError(f"{cname}: parallel pair is now ({a}, {b}) and the adder does not tell the item list from the channel map")
    return pairs


def list_ops(fn, attr, sn):
    """[(kind, position text, stmt)] of mutations of self.<attr> in fn."""
    out = []
    for st in walk_no_nested(fn):
        if isinstance(st, ast.Expr) and isinstance(st.value, ast.Call) and isinstance(st.value.func, ast.Attribute) and is_self_attr(st.value.func.value, attr, sn):
            m = st.value.func.attr
            if m == "append":
                out.append(("append", "", st))
            elif m in ("insert", "pop", "remove", "clear", "extend", "sort", "reverse"):
                pos = norm(st.value.args[0]) if st.value.args else ""
                out.append((m, pos if m in ("insert", "pop") else "", st))
        elif isinstance(st, ast.Delete):
            for t in st.targets:
                if isinstance(t, ast.Subscript) and is_self_attr(t.value, attr, sn):
                    out.append(("del", norm(t.slice), st))
        elif isinstance(st, (ast.Assign, ast.AnnAssign)):
            for t in (st.targets if isinstance(st, ast.Assign) else [st.target]):
                if is_self_attr(t, attr, sn):
                    out.append(("store", "", st))
                elif isinstance(t, ast.Subscript) and is_self_attr(t.value, attr, sn):
                    out.append(("setitem", norm(t.slice), st))
    return out


def in_handler(fn, st):
    for t in walk_no_nested(fn):
        if isinstance(t, ast.Try):
            for h in t.handlers:
                if any(s is st for b in h.body for s in ast.walk(b)):
                    return t, h
    return None


def check_class(prog, cd, rep, cname, amap, items, c):
    mod = c.module.path.name
    summ = facts.init_summary(prog, c)
    # 1 parallel-init
    a, b = summ.attrs.get(amap), summ.attrs.get(items)
    init = c.get("__init__")
    if a is None or b is None:
        rep.fail("parallel-init", mod, f"{cname}.__init__", init.node, f"`{amap}` / `{items}` are not both initialised in __init__", construct=f"{cname}.__init__ pair")
    else:
        empty = lambda v: isinstance(v, ast.List) and not v.elts
        if empty(a) and empty(b):
            rep.ok("parallel-init", f"{cname}: both lists start empty")
        elif norm(a) == norm(b) and False:
            pass
        else:
            src_a = {n.id for n in ast.walk(a) if isinstance(n, ast.Name) and n.id in summ.params}
            src_b = {n.id for n in ast.walk(b) if isinstance(n, ast.Name) and n.id in summ.params}
            node = next(st for at, st in summ.stores if at in (items, amap) and (src_b if at == items else src_a)) if (src_a or src_b) else init.node
            if src_a != src_b or (empty(a) != empty(b)):
                rep.fail("parallel-init", mod, f"{cname}.__init__", node,
                         f"`{items}` is initialised from `{norm(b)}` while `{amap}` is `{norm(a)}`: a constructor-filled block has items without channels (lengths differ)")
            else:
                rep.ok("parallel-init", f"{cname}: both lists derive from the same argument")
    # 2 paired-mutation
    n_methods = 0
    for f in c.all_funcs():
        if f.kind not in ("method", "setter"):
            continue
        sn = f.self_name or "self"
        oa, ob = list_ops(f.node, amap, sn), list_ops(f.node, items, sn)
        if not oa and not ob:
            continue
        n_methods += 1
        fq = f"{cname}.{f.name}" + (".setter" if f.kind == "setter" else "")
        cfg = CFG(f.node)
        at = {}
        for kind, pos, st in oa:
            n = cfg.node_of(st)
            if n is not None:
                at.setdefault(n.id, []).append(("map", kind, pos, st))
        for kind, pos, st in ob:
            n = cfg.node_of(st)
            if n is not None:
                at.setdefault(n.id, []).append(("items", kind, pos, st))
        # handler stores are rule 6
        hstores = [x for x in oa + ob if x[0] == "store" and in_handler(f.node, x[2])]
        for x in hstores:
            nid = cfg.node_of(x[2]).id
            at[nid] = [y for y in at[nid] if y[3] is not x[2]]
        problems = []

        def dfs(x, seq, onpath):
            if x == cfg.exit.id:
                check_seq(seq)
                return
            for y in cfg.succ[x]:
                if y in cfg.exc_succ[x]:
                    # an exception leaves the method here: the lists must be balanced at this point
                    if y == cfg.rexit.id and x not in at:
                        ops = [e for e in seq if e[0] != "raise-capable"]
                        if len(ops) % 2 == 1:
                            st = cfg.nodes[x].stmt
                            problems.append((st, f"`{norm(head(st))[:60]}` can raise after `{norm(head(ops[-1][3]))}` and before its counterpart on the other list: the exception leaves the lists with different lengths"))
                    continue
                if y in onpath:
                    continue
                ev = at.get(y, [])
                raising = []
                node = cfg.nodes[y]
                if not ev and node.stmt is not None and node.kind in ("stmt", "test", "loop"):
                    root = node.stmt.test if node.kind == "test" and isinstance(node.stmt, ast.If) else (node.stmt.iter if node.kind == "loop" and isinstance(node.stmt, ast.For) else node.stmt)
                    if isinstance(root, ast.Raise) or any(isinstance(c_, ast.Call) for c_ in ast.walk(root)):
                        raising = [("raise-capable", "", "", node.stmt)]
                dfs(y, seq + ev + raising, onpath | {y})

        def check_seq(seq):
            pending = None  # first op of a pair waiting for its mate
            for side, kind, pos, st in seq:
                if side == "raise-capable":
                    if pending is not None:
                        problems.append((st, f"`{norm(head(st))[:60]}` can raise between `{norm(head(pending[3]))}` and its counterpart on the other list: an exception leaves the lists with different lengths"))
                    continue
                if pending is None:
                    pending = (side, kind, pos, st)
                else:
                    if pending[0] != side and pending[1] == kind and pending[2] == pos:
                        pending = None
                    else:
                        problems.append((st, f"`{norm(head(pending[3]))}` is not matched by the same operation at the same position on the other list (next is `{norm(head(st))}`)"))
                        pending = None if pending[0] != side else (side, kind, pos, st)
            if pending is not None:
                problems.append((pending[3], f"`{norm(head(pending[3]))}` changes one list only: channel list and item list get different lengths / orders"))

        dfs(cfg.entry.id, [], {cfg.entry.id})
        if problems:
            seen = set()
            for st, why in problems:
                k = (id(st), why)
                if k in seen:
                    continue
                seen.add(k)
                rep.fail("paired-mutation", mod, fq, st, why)
        else:
            rep.ok("paired-mutation", f"{fq}: every path mutates `{amap}` and `{items}` pairwise ({len(oa)}+{len(ob)} operations), nothing can raise in between", nontrivial=True)
        # 6 handler-keeps-pair
        for x in hstores:
            st = x[2]
            tr, h = in_handler(f.node, st)
            which = amap if x in oa else items
            other = items if which == amap else amap
            mirrored = any(isinstance(s, ast.Assign) and is_self_attr(s.targets[0], other, sn) for s in h.body)
            restored = st.value
            alias_noop = False
            if isinstance(restored, ast.Name):
                defs = [s for s in walk_no_nested(f.node) if isinstance(s, ast.Assign) and len(s.targets) == 1 and isinstance(s.targets[0], ast.Name) and s.targets[0].id == restored.id]
                rebinds = [s for s in walk_no_nested(f.node) if isinstance(s, ast.Assign) and any(is_self_attr(t, which, sn) for t in s.targets) and s is not st]
                if len(defs) == 1 and is_self_attr(defs[0].value, which, sn) and not rebinds:
                    alias_noop = True
            if mirrored or alias_noop:
                rep.ok("handler-keeps-pair", f"{fq}: roll-back `{norm(st)}` " + ("is mirrored on the other list" if mirrored else "restores an alias of the live list (no-op): alignment is kept"), nontrivial=True)
            else:
                rep.fail("handler-keeps-pair", mod, fq, st, f"the handler restores `{which}` only (from a copy or after a rebind): `{other}` keeps the partial additions and the lists diverge")
    # 3/4 channel guards in the adder - on path summaries: every way the adder reaches `<map>.append(V)`, with the
    # conditions that hold on that path and V written over the parameters and the object's state
    f, appends = facts.adder_summary(prog, c, parallel_pairs(prog)[cname][3].name)
    sn = f.self_name or "self"
    fq = f"{cname}.{f.name}"
    adder_channel_rules(rep, mod, fq, f, amap, sn)
    rep.attempt(adder_only_adds, prog, rep, cname, c, f, amap, items)
    rep.attempt(bulk_delegation, prog, rep, cname, c, f)
    rep.attempt(pair_view, prog, rep, cname, c, amap, items)
    # 5 container-kind: decoder installs
    u = cd.units.get(cname)
    if u is None:
        raise AnalysisError(f"anchor vanished: codec unit {cname}")
    listy = any(k in ("append", "del", "insert", "pop") for f2 in c.all_funcs() for k, p, s in list_ops(f2.node, amap, f2.self_name or "self"))
    fq = f"{cname}._build"
    installed = False
    for t in walk_terms(u.rterms):
        if isinstance(t, Install) and t.attr in (amap, items):
            installed = True
            v = t.value
            nd = None
            raw = getattr(t.node, "value", None)
            as_list = isinstance(raw, (ast.List, ast.ListComp)) or (isinstance(raw, ast.Call) and (norm(raw.func) == "list" or (isinstance(raw.func, ast.Attribute) and raw.func.attr == "tolist")))
            if isinstance(v, ast.Name) and not as_list:
                for ft in walk_terms(u.rterms):
                    if isinstance(ft, Field) and ft.ph == v.id and ft.count is not None:
                        nd = ft
            if nd is not None and listy:
                rep.fail("container-kind", u.reader.module.path.name, fq, t.node,
                         f"`{t.attr}` is installed as the ndarray returned by {nd.codec.split('.')[-1]}.bread(..., n) but add/remove use list operations on it: editing a decoded block fails")
            else:
                rep.ok("container-kind", f"{fq}: `{t.attr}` installed as a list")
    if not installed:
        rep.ok("container-kind", f"{fq}: the pair is filled through the add method (list appends)")
    # 5b 'surviving items keep the channel they were given' across encode/decode: the decoded block's channel list is the stored one
    # (installed as it is, or handed item by item to the add method as the explicit channel) - not a fresh automatic numbering
    try:
        un = cd.unify(u)
        obj = un.result_obj
    except AnalysisError:
        obj = None
    if obj is not None and amap in obj["attrs"] and obj["attrs"][amap] is not None:
        from ..sym import canon as _canon
        gotm = _canon(obj["attrs"][amap], un.ctx)
        if gotm == f"self.{amap}":
            rep.ok("decoder-keeps-channels", f"{fq}: the decoded `{amap}` is the stored channel list", nontrivial=True)
        else:
            rep.fail("decoder-keeps-channels", u.reader.module.path.name, fq, obj["node"], f"the decoded block's `{amap}` is `{gotm[:80]}`, not the stored channel list: items come back on other channels than they were stored with",
                     construct=f"{fq} decoded {amap}")
    # 5c .. bit for bit: the channel numbers are read back with the dtype they were written with (same width AND same signedness:
    # a channel >= 32768 written unsigned comes back negative through a signed read, and the explicit-channel refusal then misses it)
    try:
        un = cd.unify(u)
        mentions = lambda e: e is not None and any(is_self_attr(x, amap) for x in ast.walk(e))
        wmap = [t for t in walk_terms(u.wterms) if isinstance(t, Field) and t.role == "data" and mentions(t.value)]
        rmap = [t for t in walk_terms(u.rterms) if isinstance(t, Field) and t.role == "data" and t.ph and mentions(un.bind.get(t.ph))]
        for wt in wmap:
            for rt in rmap:
                if (wt.dt.kind, wt.dt.size) == (rt.dt.kind, rt.dt.size):
                    rep.ok("decoder-keeps-channels", f"{fq}: channel numbers written and read as {wt.dt.describe()}", nontrivial=True)
                else:
                    rep.fail("decoder-keeps-channels", u.reader.module.path.name, fq, rt.node, f"the channel numbers are written as {wt.dt.describe()} and read back as {rt.dt.describe()}: "
                             "channels outside the common range come back as other numbers", construct=f"{fq} channel dtype {rt.dt.describe()}")
    except AnalysisError:
        pass
    # 7 lookup-types (removal by label)
    for f2 in c.all_funcs():
        if f2.kind != "method" or "label" not in f2.params:
            continue
        sn2 = f2.self_name or "self"
        for g in walk_no_nested(f2.node):
            if isinstance(g, (ast.GeneratorExp, ast.ListComp)):
                gen = g.generators[0]
                it = gen.iter
                if isinstance(it, ast.Call) and norm(it.func) == "enumerate":
                    it = it.args[0]
                if not is_self_attr(it, items, sn2):
                    continue
                for cond in gen.ifs:
                    if isinstance(cond, ast.Compare) and len(cond.ops) == 1 and isinstance(cond.ops[0], ast.Eq):
                        sides = [norm(cond.left), norm(cond.comparators[0])]
                        if "label" in sides:
                            other = sides[1 - sides.index("label")]
                            if other.endswith(".label"):
                                rep.ok("lookup-types", f"{cname}.{f2.name}: items are located by `item.label == label`", nontrivial=True)
                            else:
                                k = facts.element_class(prog, c, items)
                                eq = k.get("__eq__") if k else None
                                unguarded = False
                                if eq is not None:
                                    o = eq.params[0]
                                    derefs = any(isinstance(x, ast.Attribute) and norm(x.value) == o for x in ast.walk(eq.node))
                                    guard = any(isinstance(x, ast.Call) and norm(x.func) == "isinstance" and norm(x.args[0]) == o for x in ast.walk(eq.node))
                                    unguarded = derefs and not guard
                                rep.fail("lookup-types", mod, f"{cname}.{f2.name}", cond,
                                         f"`{norm(cond)}` compares an item object with the label string" + (f"; {k.name}.__eq__ dereferences `{o}.<attr>` without an isinstance guard, so every call raises AttributeError" if unguarded else ": never true, the item is never found"))
    # 8 encoding order: count, whole map, items in list order
    W = [t for t in normalise(u.wterms, "w") if has_stream(t)]
    idx_map = next((i for i, t in enumerate(W) if isinstance(t, Field) and norm(t.value) == f"self.{amap}"), None)
    idx_items = next((i for i, t in enumerate(W) if isinstance(t, Rep) and t.kind == "coll" and norm(t.over) == f"self.{items}"), None)
    wfq = f"{cname}._write"
    if idx_map is not None and idx_items is not None and idx_map < idx_items:
        rep.ok("encoding-order", f"{wfq}: whole `{amap}` then `{items}` in list order", nontrivial=True)
    else:
        rep.fail("encoding-order", u.writer.module.path.name, wfq, u.writer.node, f"the writer does not emit the whole `{amap}` followed by `{items}` in list order", construct=f"{wfq} order")
    return n_methods


# bulk operations of the channel-mapped classes, confirmed by reading (class -> (method, kind, what it does per item, index of
# the items parameter, index of the channels parameter | "pairs" (the items ARE (channel, item) pairs) | None))
SHRINKING = ("del", "pop", "remove", "clear", "store", "setitem", "sort", "reverse", "insert")


def adder_only_adds(prog, rep, cname, c, adder, amap, items, rule="paired-mutation"):
    """'surviving items keep the channel they were given' and 'a refused add changes nothing': the adder's only changes of the two
    lists are the paired appends at its end.  An adder that deletes, replaces or reorders entries - directly or by calling a method
    of the class that does (the remover, a clear, a setter) - takes away a pair nobody asked to remove (and does so before its own
    refusals, so a refused add is no longer a no-op); decoders rebuild blocks through the adder, so stored pairs vanish on read."""
    mod = c.module.path.name
    sn = adder.self_name or "self"
    fq = f"{cname}.{adder.name}"
    bad = []
    for kind, pos, st in list_ops(adder.node, amap, sn) + list_ops(adder.node, items, sn):
        if kind in SHRINKING and not in_handler(adder.node, st):
            bad.append((st, f"`{norm(head(st))[:60]}` ({kind}) inside the adder"))
    for call in [x for x in walk_no_nested(adder.node) if isinstance(x, ast.Call) and isinstance(x.func, ast.Attribute) and isinstance(x.func.value, ast.Name) and x.func.value.id == sn]:
        m = prog.lookup_method(c, call.func.attr)
        if m is None or m.name == adder.name:
            continue
        msn = m.self_name or "self"
        ops = [o for o in list_ops(m.node, amap, msn) + list_ops(m.node, items, msn) if o[0] in SHRINKING]
        if ops:
            bad.append((call, f"`{norm(call)[:60]}` calls {cname}.{m.name}, which changes the lists by `{norm(head(ops[0][2]))[:50]}`"))
    if bad:
        for node, why in bad:
            rep.fail(rule, mod, fq, node, f"{why}: an add takes away or re-arranges pairs that nobody asked to remove (a stored pair is lost when a block with such items is decoded, and a refused add is no longer a no-op)",
                     construct=f"{fq} shrinks the lists: {norm(head(node))[:50]}")
    else:
        rep.ok(rule, f"{fq}: the adder only appends to `{amap}` / `{items}` (no deletion, replacement or reordering, directly or through a method of the class)", nontrivial=True)


def pair_view(prog, rep, cname, c, amap, items, rule="pair-view"):
    """A public accessor that hands out (channel, item) pairs takes the channel from the channel list: zip(<map>, <items>) in that
    order - a position (enumerate) or any other sequence in the channel's place makes the bulk read-modify-write idiom
    (`blk.xs = [p for p in blk.xs if ..]`) install wrong channels."""
    from ..facts import return_leaves
    mod = c.module.path.name
    n = 0
    for f in c.all_funcs():
        if f.kind not in ("getter", "method") or (f.kind == "method" and f.name != "__iter__"):
            continue
        sn = f.self_name or "self"
        for guards, v, pe in return_leaves(f.node):
            if v is None:
                continue
            pairs = [x for x in ast.walk(v) if isinstance(x, ast.Call) and norm(x.func) in ("zip", "enumerate")
                     and any(is_self_attr(a, items, sn) or (isinstance(a, ast.Subscript) and is_self_attr(a.value, items, sn)) for a in x.args)]
            for x in pairs:
                n += 1
                fq = f"{cname}.{f.name}"
                good = norm(x.func) == "zip" and len(x.args) == 2 and is_self_attr(x.args[0], amap, sn) and is_self_attr(x.args[1], items, sn) and not x.keywords
                if good:
                    rep.ok(rule, f"{fq}: pairs are zip({sn}.{amap}, {sn}.{items})", nontrivial=True)
                else:
                    rep.fail(rule, mod, fq, pe.node if pe.node is not None else f.node,
                             f"`{norm(x)}` pairs the items with something other than their channels (`{sn}.{amap}`, first): the public (channel, item) view no longer shows the channel each item was given",
                             construct=f"{fq} pairs {norm(x)}")
    return n


BULK = {
    "ForcePlatformsCalibrationDataBlock": [("__init__", "method", "add", 0, None), ("add_platforms", "method", "add", 0, 1),
                                           ("remove_platforms", "method", "remove", 0, None), ("platforms", "setter", "add", 0, "pairs")],
    "ForcePlatformsDataBlock": [("platforms", "setter", "add", 0, None)],
    "EMG": [],
}


def bulk_delegation(prog, rep, cname, c, adder, rule="bulk-delegation"):
    """'bulk add/remove and bulk assignment': each bulk operation walks its items and hands EACH to the single-item operation
    (which carries the channel rules) - an explicit channel that came with the item is passed on, not dropped.  Path summaries
    of the method and of its loop body."""
    from ..facts import flat_facts, path_returns
    mod = c.module.path.name
    n = 0
    # the single-item remover: the method that deletes from both lists
    a_, b_ = EXPECTED[cname]
    removers = [f for f in c.all_funcs() if f.kind == "method" and any(k in ("del", "pop", "remove") for k, _, _ in list_ops(f.node, b_, f.self_name or "self"))]
    for mname, kind, what, i_items, i_chan in BULK[cname]:
        f = prog.lookup_method(c, mname, kind) if kind != "method" else c.get(mname)
        fq = f"{cname}.{mname}" + (".setter" if kind == "setter" else "")
        if f is None:
            raise AnalysisError(f"anchor vanished: bulk operation {fq}")
        sn = f.self_name or "self"
        if len(f.params) <= i_items:
            raise AnalysisError(f"{fq}: parameter list changed")
        items_p = f.params[i_items]
        chan_p = f.params[i_chan] if isinstance(i_chan, int) and len(f.params) > i_chan else None
        single = {adder.name} if what == "add" else {r.name for r in removers}
        if not single:
            raise AnalysisError(f"{cname}: no single-item {what} method found")
        n += 1
        bad = False
        for pe in path_returns(f.node):
            if pe.kind == "raise":
                continue
            fl = flat_facts(pe.guards)
            if any(isinstance(t, ast.Name) and t.id == items_p and not pol for t, pol in fl):
                continue  # nothing to process
            loops = [e.value for e in pe.effects if isinstance(e, ast.Expr) and isinstance(e.value, ast.Call) and norm(e.value.func) == "__loop__" and hasattr(e, "_loop")
                     and any(isinstance(x, ast.Name) and x.id == items_p for x in ast.walk(e.value.args[0]))]
            loop_nodes = [e._loop for e in pe.effects if isinstance(e, ast.Expr) and isinstance(e.value, ast.Call) and norm(e.value.func) == "__loop__" and hasattr(e, "_loop")
                          and any(isinstance(x, ast.Name) and x.id == items_p for x in ast.walk(e.value.args[0]))]
            direct = [x for e in pe.effects for x in ast.walk(e) if isinstance(x, ast.Call) and isinstance(x.func, ast.Attribute) and x.func.attr in single
                      and isinstance(x.func.value, ast.Name) and x.func.value.id == sn]
            # the whole collection handed to another bulk operation of the class (itself in the table) is a delegation too
            others = {m for m, _, w, _, _ in BULK[cname] if w == what and m != mname}
            direct += [x for e in pe.effects for x in ast.walk(e) if isinstance(x, ast.Call) and isinstance(x.func, ast.Attribute) and x.func.attr in others
                       and isinstance(x.func.value, ast.Name) and x.func.value.id == sn
                       and any(isinstance(y, ast.Name) and y.id == items_p for a in list(x.args) + [k.value for k in x.keywords] for y in ast.walk(a))]
            if not loop_nodes:
                if direct:
                    continue  # handed over in some other way (e.g. the whole list to another bulk method)
                rep.fail(rule, mod, fq, pe.node or f.node, f"a path of {fq} never walks `{items_p}`: the items given are silently not {'added' if what == 'add' else 'removed'}",
                         construct=f"{fq} items not processed")
                bad = True
                continue
            chan_given = chan_p is not None and any(isinstance(t, ast.Name) and t.id == chan_p and pol for t, pol in fl)
            for hdr, L in zip(loops, loop_nodes):
                tnames = [x.id for x in ast.walk(L.target) if isinstance(x, ast.Name)]
                hdr_has_chan = chan_p is not None and any(isinstance(x, ast.Name) and x.id == chan_p for x in ast.walk(hdr.args[0]))
                fake = ast.FunctionDef(name="_body", args=ast.arguments(posonlyargs=[], args=[], kwonlyargs=[], kw_defaults=[], defaults=[]), body=L.body, decorator_list=[], lineno=L.lineno, col_offset=0)
                for bp in path_returns(fake):
                    if bp.kind == "raise":
                        continue
                    calls = [x for e in bp.effects for x in ast.walk(e) if isinstance(x, ast.Call) and isinstance(x.func, ast.Attribute) and x.func.attr in single
                             and isinstance(x.func.value, ast.Name) and x.func.value.id == sn]
                    if not calls:
                        rep.fail(rule, mod, fq, L, f"an iteration of the loop over `{items_p}` ends without calling {sn}.{'/'.join(sorted(single))}(): that item is silently not {'added' if what == 'add' else 'removed'}",
                                 construct=f"{fq} item skipped")
                        bad = True
                        continue
                    call = calls[0]
                    a0 = call.args[0] if call.args else (call.keywords[0].value if call.keywords else None)
                    if not (isinstance(a0, ast.Name) and a0.id.lstrip("?") in tnames):
                        rep.fail(rule, mod, fq, call, f"`{norm(call)}` does not hand over the loop's item", construct=f"{fq} item argument")
                        bad = True
                        continue
                    if what == "add":
                        cparam = adder.params[1] if len(adder.params) > 1 else None
                        a1 = call.args[1] if len(call.args) > 1 else next((k.value for k in call.keywords if k.arg == cparam), None)
                        need = hdr_has_chan or i_chan == "pairs"
                        if need and not (isinstance(a1, ast.Name) and a1.id.lstrip("?") in tnames and a1.id != a0.id):
                            rep.fail(rule, mod, fq, call, f"the channel that comes with each item is not passed to {adder.name}() (`{norm(call)}`): an explicit channel is dropped and an automatic one assigned",
                                     construct=f"{fq} channel dropped")
                            bad = True
                        elif chan_given and not hdr_has_chan:
                            rep.fail(rule, mod, fq, L, f"on the path where `{chan_p}` is given the loop walks `{norm(hdr.args[0])}` only: the explicit channels are ignored",
                                     construct=f"{fq} channels ignored")
                            bad = True
        if not bad:
            rep.ok(rule, f"{fq}: every item is handed to {'/'.join(sorted(single))}()" + (" with its channel" if i_chan is not None else ""), nontrivial=True)
    return n


def adder_channel_rules(rep, mod, fq, f, amap, sn):
    from ..facts import path_returns, split_ifexp
    M = f"{sn}.{amap}"
    paths = path_returns(f.node)

    def flat(t, pol):
        """atomic (test, polarity) facts implied by a guard"""
        if isinstance(t, ast.UnaryOp) and isinstance(t.op, ast.Not):
            return flat(t.operand, not pol)
        if isinstance(t, ast.BoolOp) and ((isinstance(t.op, ast.And) and pol) or (isinstance(t.op, ast.Or) and not pol)):
            return [x for v in t.values for x in flat(v, pol)]
        return [(t, pol)]

    def membership(t, pol):
        """(expr text, present?) when the fact says <expr> in / not in the map"""
        if isinstance(t, ast.Compare) and len(t.ops) == 1 and isinstance(t.ops[0], (ast.In, ast.NotIn)) and norm(t.comparators[0]) == M:
            return norm(t.left), (pol if isinstance(t.ops[0], ast.In) else not pol)
        return None

    def emptiness(t, pol):
        """True: the map is known empty; False: known non-empty"""
        s_ = norm(t).replace(" ", "")
        if s_ in (f"len({M})==0", f"0==len({M})", f"len({M})<1"):
            return pol
        if s_ in (f"len({M})!=0", f"len({M})>0", f"len({M})>=1", M, f"len({M})"):
            return not pol
        return None

    def is_none(t, pol, p):
        if isinstance(t, ast.Compare) and len(t.ops) == 1 and norm(t.left) == p and isinstance(t.comparators[0], ast.Constant) and t.comparators[0].value is None:
            if isinstance(t.ops[0], (ast.Is, ast.Eq)):
                return pol
            if isinstance(t.ops[0], (ast.IsNot, ast.NotEq)):
                return not pol
        return None

    # refusals of a taken channel
    refusals = []  # (expr text, exception, node)
    for pe in paths:
        if pe.kind != "raise":
            continue
        exc = pe.value.func if isinstance(pe.value, ast.Call) else pe.value
        for t, pol in pe.guards:
            for a, apol in flat(t, pol):
                m = membership(a, apol)
                if m and m[1]:
                    refusals.append((m[0], norm(exc) if exc is not None else "", pe.node))
    seen = set()
    n_app = 0
    # parameters that are appended as they are on some path: the caller's explicit channel
    explicit_params = set()
    for pe in paths:
        for e in pe.effects:
            for call in ast.walk(e):
                if isinstance(call, ast.Call) and isinstance(call.func, ast.Attribute) and call.func.attr == "append" and norm(call.func.value) == M and call.args:
                    for _, V in split_ifexp(call.args[0]):
                        if isinstance(V, ast.Name) and V.id in f.params:
                            explicit_params.add(V.id)
    for pe in paths:
        if pe.kind == "raise":
            continue
        from ..facts import flat_facts as _ff
        facts_ = _ff(pe.guards)      # with unit resolution: `not (A and B)` and A give `not B`
        for e in pe.effects:
            for call in ast.walk(e):
                if not (isinstance(call, ast.Call) and isinstance(call.func, ast.Attribute) and call.func.attr == "append" and norm(call.func.value) == M and call.args):
                    continue
                n_app += 1
                X = call.args[0]
                for conds, V in split_ifexp(X):
                    fs = facts_ + [x for t, pol in conds for x in flat(t, pol)]
                    vn = norm(V).replace(" ", "")
                    absent = any((m := membership(a, pol)) and not m[1] and m[0] in (norm(X), norm(V)) for a, pol in fs)
                    empt = [x for x in (emptiness(a, pol) for a, pol in fs) if x is not None]
                    explicit = isinstance(V, ast.Name) and V.id in f.params
                    key = (vn, explicit, absent)
                    if explicit:
                        # the caller's channel
                        if absent:
                            excs = [r for r in refusals if r[0] in (norm(X), norm(V))]
                            bad = [r for r in excs if r[1] != "ValueError"]
                            if bad:
                                rep.fail("channel-unique-guard", mod, fq, bad[0][2], f"a taken channel is refused with {bad[0][1]}, not ValueError")
                            elif not excs:
                                rep.fail("channel-unique-guard", mod, fq, call, f"a channel already in `{amap}` is silently skipped instead of refused with ValueError")
                            elif key not in seen:
                                rep.ok("channel-unique-guard", f"{fq}: explicit channel refused with ValueError when already in `{amap}`", nontrivial=True)
                        else:
                            rep.fail("channel-unique-guard", mod, fq, call, f"`{amap}.append({norm(V)})` is reached without `{norm(V)} in self.{amap}` having been found false: duplicate channels can be created",
                                     construct=f"{amap}.append({norm(V)}) unguarded")
                    else:
                        fresh = absent
                        if vn in (f"max({M})+1", f"1+max({M})") and empt and not empt[-1]:
                            fresh = True
                        if vn == "0" and empt and empt[-1]:
                            fresh = True
                        if vn in (f"max({M},default=-1)+1", f"1+max({M},default=-1)"):
                            fresh = True
                        if fresh:
                            if key not in seen:
                                rep.ok("auto-channel-fresh", f"{fq}: automatic channel `{norm(V)}` is provably not in use on its path (max+1 / 0 when empty / membership refusal)", nontrivial=True)
                        else:
                            rep.fail("auto-channel-fresh", mod, fq, call, f"automatic channel `{norm(V)}` is not provably unused (expected max(map)+1 / 0 when empty, or a membership test before the append)",
                                     construct=f"auto channel {norm(V)}")
                        # explicit channel honoured: a value other than the caller's is appended only when the caller gave None
                        chan_params = sorted(explicit_params)
                        for cp in chan_params:
                            nn = [x for x in (is_none(a, pol, cp) for a, pol in fs) if x is not None]
                            if nn and nn[-1]:
                                if (cp, vn) not in seen:
                                    rep.ok("explicit-channel-honoured", f"{fq}: the automatic channel is chosen only when `{cp} is None`")
                                seen.add((cp, vn))
                            else:
                                sel = [norm(a) for a, pol in fs if any(isinstance(x, ast.Name) and x.id == cp for x in ast.walk(a)) and membership(a, True) is None]
                                if sel:
                                    rep.fail("explicit-channel-honoured", mod, fq, call, f"`{sel[0]}` decides between automatic and explicit channel: an explicit channel 0 (falsy) is silently replaced by an automatic one",
                                             construct=f"auto channel selected by {sel[0]}")
                    seen.add(key)
    if not n_app:
        raise AnalysisError(f"{fq}: no `{amap}.append(...)` reached on any path (anchor vanished)")


def item_equality_looks_at_other(prog, rep, rule="removal-by-equality"):
    """Removal by object goes through `in` / `list.index`, i.e. through the item class's __eq__: the item found is the FIRST one equal
    to the argument.  A term of that __eq__ that compares an attribute of `self` with the same attribute of `self` is always true,
    so items differing only in it are taken for one another and the wrong pair (item, channel) is removed."""
    n = 0
    for m in prog.modules.values():
        for c in m.classes.values():
            f = c.get("__eq__")
            if f is None or len(f.params) < 1:
                continue
            sn = f.self_name or "self"
            bad = []
            for x in walk_no_nested(f.node):
                pairs = []
                if isinstance(x, ast.Compare) and len(x.ops) == 1 and isinstance(x.ops[0], (ast.Eq, ast.NotEq)):
                    pairs.append((x.left, x.comparators[0]))
                if isinstance(x, ast.Call) and norm(x.func).split(".")[-1] in ("allclose", "array_equal", "isclose", "array_equiv") and len(x.args) >= 2:
                    pairs.append((x.args[0], x.args[1]))
                for a, b in pairs:
                    n += 1
                    if norm(a) == norm(b) and any(isinstance(y, ast.Name) and y.id == sn for y in ast.walk(a)):
                        bad.append((x, a))
            for x, a in bad:
                rep.fail(rule, m.path.name, f"{c.name}.__eq__", x, f"`{norm(x)[:70]}` compares `{norm(a)}` with itself: items that differ only there are equal to one another, so removal by object "
                         "(`in` / list.index) takes the first such item and its channel instead of the one handed in", construct=f"{c.name}.__eq__ :: {norm(a)} compared with itself")
    rep.ok(rule, f"{n} comparison terms in the package's __eq__ methods: none compares an attribute with itself")


def arguments_walked_once(prog, rep, rule="bulk-delegation"):
    """A bulk operation (list assignment, add-many, remove-many) is handed an iterable - possibly a one-shot one (`zip(channels, plats)`,
    a generator over another block).  A method that walks it twice without materialising it finds it exhausted the second time:
    a "check first, install afterwards" setter then installs nothing, honours and refuses no channel, and the block is left empty."""
    ITER_FUNCS = ("list", "tuple", "sorted", "set", "frozenset", "all", "any", "sum", "min", "max", "enumerate", "zip", "iter", "map", "filter", "reversed", "dict")
    n = 0
    for cname in EXPECTED:
        c = next((k for m in prog.modules.values() for k in m.classes.values() if k.name == cname), None)
        if c is None:
            continue
        for f in c.all_funcs():
            if f.name.startswith("__") or not f.params:
                continue
            for vals in f.params:
                passes = []
                for x in walk_no_nested(f.node):
                    if isinstance(x, ast.For) and isinstance(x.iter, ast.Name) and x.iter.id == vals:
                        passes.append(x)
                    elif isinstance(x, (ast.ListComp, ast.GeneratorExp, ast.SetComp, ast.DictComp)) and any(isinstance(g.iter, ast.Name) and g.iter.id == vals for g in x.generators):
                        passes.append(x)
                    elif isinstance(x, ast.Call) and norm(x.func) in ITER_FUNCS and any(isinstance(a, ast.Name) and a.id == vals for a in x.args):
                        passes.append(x)
                if not passes:
                    continue
                n += 1
                # passes in different arms of one `if` never both run: keep the largest set of passes that can follow one another
                parents = {}
                for p_ in ast.walk(f.node):
                    for fld in ("body", "orelse"):
                        for ch in getattr(p_, fld, []) if isinstance(getattr(p_, fld, None), list) else []:
                            for y in ast.walk(ch):
                                parents.setdefault(id(y), []).append((id(p_), fld)) if isinstance(p_, ast.If) else None

                ifs_by_id = {id(p_): p_ for p_ in ast.walk(f.node) if isinstance(p_, ast.If)}

                def leaves_fn(stmts):
                    return bool(stmts) and isinstance(stmts[-1], (ast.Return, ast.Raise))

                def exclusive(a_, b_):
                    pa, pb = dict(parents.get(id(a_), [])), dict(parents.get(id(b_), []))
                    if any(k in pb and pb[k] != v for k, v in pa.items()):
                        return True
                    # one pass sits in an arm that ends the method (return / raise) and the other lies outside that `if`
                    for x_, px, py in ((a_, pa, pb), (b_, pb, pa)):
                        for k, fld in px.items():
                            if k not in py and leaves_fn(getattr(ifs_by_id[k], fld)):
                                return True
                    return False
                seq = []
                for x in passes:
                    if all(not exclusive(x, y) for y in seq):
                        seq.append(x)
                passes = seq
                materialised = any(isinstance(x, ast.Assign) and len(x.targets) == 1 and isinstance(x.targets[0], ast.Name) and x.targets[0].id == vals and isinstance(x.value, ast.Call)
                                   and norm(x.value.func) in ("list", "tuple") for x in walk_no_nested(f.node))
                fq = f"{cname}.{f.name}" + (".setter" if f.kind == "setter" else "")
                if len(passes) > 1 and not materialised:
                    rep.fail(rule, c.module.path.name, fq, passes[1], f"`{vals}` is iterated {len(passes)} times (`{norm(head(passes[0]))[:50]}`, then `{norm(head(passes[1]))[:50]}`) without being materialised: "
                             "a one-shot iterable is used up by the first pass, so no pair is installed, no explicit channel honoured or refused, and the block ends up empty without an error",
                             construct=f"{fq} iterates {vals} twice")
                else:
                    rep.ok(rule, f"{fq}: `{vals}` is walked once")
    rep.floor(rule + "/walked-once", n, 2)


def refusals_are_total(prog, rep, rule="channel-unique-guard"):
    """"Refused with ValueError if taken": building the refusal's message must not be able to raise something else first.  A message
    that indexes a list with the channel number (`self._platforms[channel]`), calls a lookup or formats with `%` fails for some of the
    very inputs it is meant to refuse, and the caller gets IndexError / KeyError instead of the ValueError."""
    n = 0
    for cname in EXPECTED:
        c = next((k for m in prog.modules.values() for k in m.classes.values() if k.name == cname), None)
        if c is None:
            continue
        # on the source as written (in the normal form an inlined helper's message carries the caller's argument expressions, which
        # were evaluated before the call anyway)
        raw = ast.parse((prog.src / c.module.path.name).read_text())
        rc = next((k for k in ast.walk(raw) if isinstance(k, ast.ClassDef) and k.name == cname), None)
        if rc is None:
            raise AnalysisError(f"anchor vanished: class {cname}")

        class _F:
            def __init__(self, node):
                self.node, self.name = node, node.name
        for f in [_F(m_) for m_ in rc.body if isinstance(m_, ast.FunctionDef)]:
            for r in [x for x in walk_no_nested(f.node) if isinstance(x, ast.Raise) and isinstance(x.exc, ast.Call)]:
                for a in list(r.exc.args) + [k.value for k in r.exc.keywords]:
                    n += 1
                    bad = None
                    from ..facts import template_call_is_total
                    total = {id(z) for y in ast.walk(a) if template_call_is_total(raw, y, rc) for z in ast.walk(y)}
                    for y in ast.walk(a):
                        if id(y) in total:
                            continue   # a constant template (module / class level) filled with plain values: cannot raise on its own
                        # what can raise on its own: indexing with a computed index, %-formatting, method calls (lookups, .format, .index)
                        if isinstance(y, ast.Subscript) and not isinstance(y.slice, ast.Constant):
                            bad = y
                        elif isinstance(y, ast.BinOp) and isinstance(y.op, ast.Mod):
                            bad = y
                        elif isinstance(y, ast.Call) and isinstance(y.func, ast.Attribute) and not isinstance(y.func.value, ast.Constant):
                            bad = y
                        if bad is not None:
                            break
                    if bad is not None:
                        rep.fail(rule, c.module.path.name, f"{cname}.{f.name}", r, f"the message of `raise {norm(r.exc.func)}` evaluates `{norm(bad)[:60]}`, which can itself raise (an index / lookup / formatting error) "
                                 "for inputs that are to be refused: the caller sees that error instead of the refusal", construct=f"{cname}.{f.name} refusal message")
    rep.ok(rule, f"{n} refusal messages of the channel-mapped classes are plain interpolation") if n else None


def run(prog, rep):
    cd = Codecs(prog)
    cd.flag_errors(rep)
    rep.explanation = (
        "for the three channel-mapped classes: parallel-init (both lists empty or from the same argument), paired-mutation (path "
        "enumeration on each method's CFG: every mutation of one list is matched by the same operation at the same position on the "
        "other with no raise-capable statement in between), channel-unique-guard (membership test + ValueError dominates the append "
        "of an explicit channel), auto-channel-fresh, container-kind (list vs ndarray kind inference on decoder installs), "
        "handler-keeps-pair, lookup-types, encoding-order."
    )
    pairs = resolve_expected(prog)
    n = 0
    for cname, (amap, items) in EXPECTED.items():
        a, b, c, f = pairs[cname]
        n += check_class(prog, cd, rep, cname, amap, items, c)
    rep.attempt(item_equality_looks_at_other, prog, rep)
    rep.attempt(arguments_walked_once, prog, rep)
    rep.attempt(refusals_are_total, prog, rep)
    rep.floor("parallel pairs", len(EXPECTED), 3)
    rep.floor("paired-mutation/methods", n, 6)
    rep.note("ForcePlatformsDataBlock.platforms assignment appends to the existing platforms and is not atomic; alignment is kept, which is all C15 asks")
    rep.not_decided += ["uniqueness for maps installed verbatim from a foreign file that already contains duplicates"]
