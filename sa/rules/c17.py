"""C17 creating or copying never clobbers (DESIGN 3/C17)."""
from __future__ import annotations

import ast

from .. import mutrules as M
from ..cfg import CFG
from ..codecs import Codecs
from ..container import Container
from ..index import walk_no_nested
from ..layout import Field, Raw, walk_terms
from ..reference_layout import HEADER
from ..refmatch import RefMatcher
from ..report import AnalysisError, head, norm
from ..unify import GuardFail, normalise

WRITE_MODE_CHARS = set("wax+")


def creating_calls(fn):
    """[(call, path expression, how)] of calls that create / overwrite a file in fn."""
    out = []
    for c in walk_no_nested(fn):
        if not isinstance(c, ast.Call):
            continue
        f = c.func
        name = norm(f)
        if isinstance(f, ast.Attribute) and f.attr == "open":
            mode = c.args[0] if c.args else next((k.value for k in c.keywords if k.arg == "mode"), None)
            if isinstance(mode, ast.Constant) and isinstance(mode.value, str) and set(mode.value) & WRITE_MODE_CHARS:
                out.append((c, f.value, f"open({mode.value!r})", mode.value))
        elif name == "open" and c.args:
            mode = c.args[1] if len(c.args) > 1 else next((k.value for k in c.keywords if k.arg == "mode"), None)
            if isinstance(mode, ast.Constant) and isinstance(mode.value, str) and set(mode.value) & WRITE_MODE_CHARS:
                out.append((c, c.args[0], f"open(..., {mode.value!r})", mode.value))
        elif name in ("shutil.copyfile", "shutil.copy", "shutil.copy2", "shutil.move", "os.rename", "os.replace") and len(c.args) >= 2:
            out.append((c, c.args[1], name, ""))
        elif isinstance(f, ast.Attribute) and f.attr in ("write_bytes", "write_text", "touch"):
            out.append((c, f.value, f.attr, ""))
    return out


def exists_before_create(ct, rep, rule="exists-before-create"):
    n = 0
    for name in ("new", "copy"):
        f = ct.prog.need_method(ct.tdf, name)
        fq = f"Tdf.{name}"
        cfg = CFG(f.node)
        calls = creating_calls(f.node)
        if not calls:
            raise AnalysisError(f"{fq}: no file-creating call found (anchor vanished)")
        guards = []
        for st in walk_no_nested(f.node):
            if isinstance(st, ast.If) and st.body and isinstance(st.body[-1], ast.Raise):
                t = st.test
                if isinstance(t, ast.Call) and isinstance(t.func, ast.Attribute) and t.func.attr == "exists" and not t.args:
                    e = st.body[-1].exc
                    e = e.func if isinstance(e, ast.Call) else e
                    guards.append((norm(t.func.value), norm(e), st))
                elif isinstance(t, ast.Call) and norm(t.func) == "os.path.exists" and t.args:
                    e = st.body[-1].exc
                    e = e.func if isinstance(e, ast.Call) else e
                    guards.append((norm(t.args[0]), norm(e), st))
        for c, path, how, mode in calls:
            n += 1
            st = next(s for s in walk_no_nested(f.node) if isinstance(s, ast.stmt) and any(x is c for x in ast.walk(s)) and not isinstance(s, (ast.FunctionDef,)))
            cn = cfg.node_of(st)
            if "x" in mode:
                rep.ok(rule, f"{fq}: `{how}` is an exclusive creation")
                continue
            p = norm(path)
            good = [g for g in guards if g[0] == p and cn is not None and cfg.dominates(cfg.node_of(g[2]), cn)]
            # the path variable must be the one built from the argument and not reassigned between guard and creation
            defs = [s for s in walk_no_nested(f.node) if isinstance(s, ast.Assign) and any(norm(t) == p for t in s.targets)]
            from_arg = bool(defs) and all(any(isinstance(x, ast.Name) and x.id in f.params for x in ast.walk(s.value)) for s in defs) or p in f.params
            if good and good[0][1] == "FileExistsError" and len(defs) <= 1 and from_arg:
                rep.ok(rule, f"{fq}: `{how}` on `{p}` is dominated by `if {p}.exists(): raise FileExistsError`", nontrivial=True)
            elif good and good[0][1] != "FileExistsError":
                rep.fail(rule, ct.mod.path.name, fq, good[0][2], f"an existing target is refused with {good[0][1]}, not FileExistsError")
            elif not from_arg:
                rep.fail(rule, ct.mod.path.name, fq, st, f"`{how}` creates `{p}`, which is not (only) the path built from the caller's argument")
            else:
                others = [g[0] for g in guards]
                rep.fail(rule, ct.mod.path.name, fq, st, f"`{how}` on `{p}` is not dominated by an existence test on that same path (tests found on: {others}): an existing file would be overwritten")
    rep.floor(rule, n, 2)


def open_checks(ct, cd, rep, rule="open-checks"):
    init = ct.prog.need_method(ct.tdf, "__init__")
    cfg = CFG(init.node)
    guards = [st for st in walk_no_nested(init.node) if isinstance(st, ast.If) and st.body and isinstance(st.body[-1], ast.Raise)]
    g = None
    for st in guards:
        t = norm(st.test).replace(" ", "")
        e = st.body[-1].exc
        e = norm(e.func if isinstance(e, ast.Call) else e)
        if t.startswith("not") and t.endswith(".exists()") and e == "FileNotFoundError":
            g = st
    if g is None:
        rep.fail(rule, ct.mod.path.name, "Tdf.__init__", init.node, "opening a path that does not exist is not refused with FileNotFoundError", construct="Tdf.__init__ existence check")
    else:
        # the tested path is the one stored
        tested = g.test.operand.func.value if isinstance(g.test, ast.UnaryOp) else None
        if tested is not None and norm(tested) == "self.file_path":
            rep.ok(rule, "Tdf.__init__: FileNotFoundError when self.file_path does not exist", nontrivial=True)
        else:
            rep.fail(rule, ct.mod.path.name, "Tdf.__init__", g, f"existence is tested on `{norm(tested)}`, not on the stored path")
    # signature check precedes every decoded field
    hu = cd.header
    R = normalise(hu.rterms, "r")
    seen_raw = seen_guard = False
    okk = None
    for t in R:
        if isinstance(t, Raw) and t.op == "read" and not seen_raw:
            seen_raw = True
            sig_raw = t
        elif isinstance(t, GuardFail) and seen_raw and not seen_guard:
            c = norm(t.cond).replace(" ", "")
            if "SIGNATURE" in c and "!=" in c:
                seen_guard = True
        elif isinstance(t, Field) and t.role == "data":
            okk = seen_raw and seen_guard
            break
    enter = ct.prog.need_method(ct.tdf, "__enter__")
    if okk:
        n = ct.ctx.const_int(sig_raw.nbytes) if sig_raw.nbytes is not None else None
        rep.ok(rule, f"Tdf.__enter__: the first {n} bytes are compared with SIGNATURE and a mismatch raises before any field is decoded", nontrivial=True)
    else:
        rep.fail(rule, ct.mod.path.name, "Tdf.__enter__", enter.node, "the signature check does not precede the first decoded header field: a non-TDF file would yield data", construct="Tdf.__enter__ signature check")


def copy_direction(ct, rep, rule="copy-direction"):
    f = ct.prog.need_method(ct.tdf, "copy")
    fq = "Tdf.copy"
    calls = [c for c in walk_no_nested(f.node) if isinstance(c, ast.Call) and norm(c.func) in ("shutil.copyfile", "shutil.copy", "shutil.copy2")]
    if not calls:
        raise AnalysisError(f"{fq}: no shutil copy call (anchor vanished)")
    c = calls[0]
    src, dst = norm(c.args[0]), norm(c.args[1])
    newp = None
    for st in walk_no_nested(f.node):
        if isinstance(st, ast.Assign) and isinstance(st.value, ast.Call) and norm(st.value.func) == "Path" and st.value.args and norm(st.value.args[0]) in f.params:
            newp = norm(st.targets[0])
    fl = next((k for k in c.keywords if k.arg == "follow_symlinks"), None)
    if fl is not None and not (isinstance(fl.value, ast.Constant) and fl.value.value is True):
        rep.fail(rule, ct.mod.path.name, fq, c, "follow_symlinks is disabled: for a symlinked source the 'copy' is another link to the same file, not an independent byte-identical file")
    if src == "self.file_path" and dst in ([newp] + f.params):
        rep.ok(rule, f"{fq}: copies self.file_path -> {dst} (source first)", nontrivial=True)
    else:
        rep.fail(rule, ct.mod.path.name, fq, c, f"copy direction is {src} -> {dst}; expected self.file_path -> the new path")
    rets = [s for s in walk_no_nested(f.node) if isinstance(s, ast.Return)]
    if rets and all(isinstance(r.value, ast.Call) and norm(r.value.func) == "Tdf" and norm(r.value.args[0]) in ([newp] + f.params) for r in rets):
        rep.ok(rule, f"{fq}: returns a distinct Tdf instance on the new path")
    else:
        rep.fail(rule, ct.mod.path.name, fq, rets[0] if rets else f.node, "copy does not return a new Tdf bound to the new path", construct=f"{fq} return")
    new = ct.prog.need_method(ct.tdf, "new")
    rets = [s for s in walk_no_nested(new.node) if isinstance(s, ast.Return)]
    paths = [norm(st.targets[0]) for st in walk_no_nested(new.node) if isinstance(st, ast.Assign) and isinstance(st.value, ast.Call) and norm(st.value.func) == "Path"]
    if rets and all(isinstance(r.value, ast.Call) and norm(r.value.func) == "Tdf" and norm(r.value.args[0]) in paths + new.params for r in rets):
        rep.ok(rule, "Tdf.new: returns a Tdf on the path it just created")
    else:
        rep.fail(rule, ct.mod.path.name, "Tdf.new", rets[0] if rets else new.node, "Tdf.new does not return a Tdf bound to the created path", construct="Tdf.new return")


def new_layout(ct, cd, rep, rule="new-layout"):
    hu = cd.header
    f = hu.writer

    def emit(ok, node, text):
        if ok:
            rep.ok(rule, f"Tdf.new: {text}")
        else:
            rep.fail(rule, ct.mod.path.name, "Tdf.new", node if node is not None else f.node, text)

    m = RefMatcher(cd, hu, "w", emit)
    m.match(HEADER, normalise(hu.wterms, "w"))
    M.initial_layout(ct, rep, rule=rule)
    M.unused_size_zero(ct, rep, rule=rule + "/unused-size-zero")
    vals = [t for t in walk_terms(hu.wterms) if isinstance(t, Field) and t.role == "data"][:2]
    for t, (nm, want) in zip(vals, (("version", 1), ("nEntries", 14))):
        got = ct.prog.const_int(ct.mod, t.value)
        if got == want:
            rep.ok(rule, f"Tdf.new writes {nm} = {want}")
        else:
            rep.fail(rule, ct.mod.path.name, "Tdf.new", t.stmt or t.node, f"a new container is written with {nm} = {got}, expected {want}")


def run(prog, rep):
    ct = Container(prog)
    cd = Codecs(prog)
    cd.flag_errors(rep)
    rep.explanation = (
        "exists-before-create: every file-creating call in Tdf.new / Tdf.copy is dominated (CFG) by `if p.exists(): raise "
        "FileExistsError` on the same path value built from the argument; new-layout: the layout term of Tdf.new equals the "
        "reference header + 14 empty entries pointing at HDR + 14*ENT with nothing after the table; open-checks: "
        "FileNotFoundError in __init__, signature comparison before the first decoded field in __enter__; copy-direction."
    )
    rep.attempt(exists_before_create, ct, rep)
    rep.attempt(new_layout, ct, cd, rep)
    rep.attempt(open_checks, ct, cd, rep)
    rep.attempt(copy_direction, ct, rep)
    # copy() copies by path: it is byte-identical to the source's content only if mutators leave nothing pending in a buffer
    rep.attempt(M.flush_on_exit, ct, rep, rule="copy-sees-flushed-file")
    rep.not_decided += ["the check-then-create race against another process", "symlinked paths"]
