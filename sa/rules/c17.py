"""C17 creating or copying never clobbers (DESIGN 3/C17)."""
from __future__ import annotations

import ast

from .. import mutrules as M
from ..cfg import CFG
from ..codecs import Codecs
from ..container import Container
from ..index import is_self_attr, walk_no_nested
from ..layout import Field, Raw, walk_terms
from ..reference_layout import HEADER
from ..refmatch import RefMatcher
from ..report import AnalysisError, head, norm
from ..unify import GuardFail, normalise

WRITE_MODE_CHARS = set("wax+")


def creating_calls(roots):
    """[(call, path expression, how, mode)] of calls that create / overwrite a file in the given nodes."""
    out = []
    if isinstance(roots, ast.AST):
        roots = [roots]
    for c in [x for r in roots for x in walk_no_nested(r)]:
        if not isinstance(c, ast.Call):
            continue
        f = c.func
        name = norm(f)
        kw = {k.arg: k.value for k in c.keywords if k.arg}
        if isinstance(f, ast.Attribute) and f.attr == "open":
            mode = c.args[0] if c.args else kw.get("mode")
            if isinstance(mode, ast.Constant) and isinstance(mode.value, str) and set(mode.value) & WRITE_MODE_CHARS:
                out.append((c, f.value, f"open({mode.value!r})", mode.value))
        elif name == "open" and (c.args or "file" in kw):
            mode = c.args[1] if len(c.args) > 1 else kw.get("mode")
            if isinstance(mode, ast.Constant) and isinstance(mode.value, str) and set(mode.value) & WRITE_MODE_CHARS:
                out.append((c, c.args[0] if c.args else kw["file"], f"open(..., {mode.value!r})", mode.value))
        elif name in ("shutil.copyfile", "shutil.copy", "shutil.copy2", "shutil.move", "os.rename", "os.replace"):
            dst = c.args[1] if len(c.args) >= 2 else kw.get("dst")
            if dst is not None:
                out.append((c, dst, name, ""))
        elif isinstance(f, ast.Attribute) and f.attr in ("write_bytes", "write_text", "touch"):
            out.append((c, f.value, f.attr, ""))
    return out


def _exists_test(t):
    """(path text, polarity) when t is `<p>.exists()` / `os.path.exists(p)` possibly negated"""
    pol = True
    while isinstance(t, ast.UnaryOp) and isinstance(t.op, ast.Not):
        t, pol = t.operand, not pol
    if isinstance(t, ast.Call) and isinstance(t.func, ast.Attribute) and t.func.attr == "exists" and not t.args and norm(t.func) != "os.path.exists":
        return norm(t.func.value), pol
    if isinstance(t, ast.Call) and norm(t.func) == "os.path.exists" and t.args:
        return norm(t.args[0]), pol
    return None, pol


def exists_before_create(ct, rep, rule="exists-before-create"):
    """Path summaries of Tdf.new / Tdf.copy: on every path that reaches a file-creating call the target path (locals
    substituted: it is an expression over the caller's argument) was tested with exists() and found absent, and the paths on
    which it exists end in FileExistsError."""
    from ..facts import path_returns
    n = 0
    for name in ("new", "copy"):
        f = ct.prog.need_method(ct.tdf, name)
        fq = f"Tdf.{name}"
        paths = path_returns(f.node, assign_calls=True)
        found = 0
        refusals = {}  # path text -> [exception names raised when it exists]
        for pe in paths:
            if pe.kind == "raise":
                e = pe.value.func if isinstance(pe.value, ast.Call) else pe.value
                for t, pol in pe.guards:
                    ptxt, ppol = _exists_test(t)
                    if ptxt is not None and (ppol == pol):
                        refusals.setdefault(ptxt, []).append((norm(e) if e is not None else "", pe.node))
        seen = set()
        for pe in paths:
            for c, path, how, mode in creating_calls(pe.effects + ([pe.value] if pe.value is not None else [])):
                found += 1
                p = norm(path)
                key = (p, how, getattr(c, "lineno", 0))
                absent = any(_exists_test(t)[0] == p and (_exists_test(t)[1] != pol) for t, pol in pe.guards)
                from_arg = any(isinstance(x, ast.Name) and x.id in f.params for x in ast.walk(path))
                if "x" in mode:
                    if key not in seen:
                        rep.ok(rule, f"{fq}: `{how}` is an exclusive creation")
                elif not from_arg:
                    rep.fail(rule, ct.mod.path.name, fq, c, f"`{how}` creates `{p}`, which is not (only) the path built from the caller's argument")
                elif not absent:
                    others = sorted({_exists_test(t)[0] for t, _ in pe.guards if _exists_test(t)[0]})
                    rep.fail(rule, ct.mod.path.name, fq, c, f"`{how}` on `{p}` is reached on a path that has not found that same path absent (existence tests on: {others}): an existing file would be overwritten")
                else:
                    excs = refusals.get(p, [])
                    bad = [e for e in excs if e[0] != "FileExistsError"]
                    if bad:
                        rep.fail(rule, ct.mod.path.name, fq, bad[0][1], f"an existing target is refused with {bad[0][0]}, not FileExistsError")
                    elif not excs:
                        rep.fail(rule, ct.mod.path.name, fq, c, f"an existing `{p}` is silently skipped instead of refused with FileExistsError")
                    elif key not in seen:
                        rep.ok(rule, f"{fq}: `{how}` on `{p}` is reached only after `{p}.exists()` was false; when it exists FileExistsError is raised", nontrivial=True)
                seen.add(key)
        # nothing in new / copy may delete, rename or rewrite a file: a refusal (and a failed copy) must leave an existing target as it was
        for c in [x for x in ast.walk(f.node) if isinstance(x, ast.Call)]:
            nm = norm(c.func)
            at = c.func.attr if isinstance(c.func, ast.Attribute) else None
            if nm in ("os.remove", "os.unlink", "os.rename", "os.replace", "os.rmdir", "os.truncate", "shutil.move", "shutil.rmtree") \
                    or (at in ("unlink", "rename", "rmdir", "write_bytes", "write_text", "touch") and not isinstance(c.func.value, ast.Constant)) \
                    or (at == "replace" and len(c.args) == 1 and isinstance(c.func.value, ast.Name) and "path" in c.func.value.id.lower()):
                rep.fail(rule, ct.mod.path.name, fq, c, f"`{norm(c)[:60]}` in {fq}: creating / copying must never delete, rename or rewrite an existing file (not even while refusing or cleaning up)",
                         construct=f"{fq} destructive call {nm}")
        if not found:
            # definite when nothing the function calls could create a file: only path construction / existence tests /
            # exception and Tdf constructors are left
            harmless = {"Path", "pathlib.Path", "str", "Tdf", ct.tdf.name, "FileExistsError", "FileNotFoundError", "ValueError", "TypeError", "OSError", "IOError", "isinstance", "type"}
            other = [c for c in ast.walk(f.node) if isinstance(c, ast.Call) and norm(c.func) not in harmless
                     and not (isinstance(c.func, ast.Attribute) and c.func.attr in ("exists", "is_file", "is_dir", "resolve", "absolute", "expanduser", "with_suffix", "with_name", "joinpath"))]
            if not other:
                rep.fail(rule, ct.mod.path.name, fq, f.node, f"{fq} creates no file at all: the path it returns / opens does not exist afterwards" + (" (no byte-identical copy is made)" if name == "copy" else ""),
                         construct=f"{fq} creates nothing")
                continue
            raise AnalysisError(f"{fq}: no file-creating call found (anchor vanished)")
        n += len(seen)
    rep.floor(rule, n, 2)


def open_checks(ct, cd, rep, rule="open-checks"):
    from ..facts import path_returns
    init = ct.prog.need_method(ct.tdf, "__init__")
    # path summaries of __init__: the paths that complete have found the stored path present; when it is absent the
    # constructor ends in FileNotFoundError
    stored = set()
    refusals = []
    completes_unchecked = []
    paths = path_returns(init.node)
    for pe in paths:
        for e in pe.effects:
            if isinstance(e, ast.Assign) and any(norm(t) == "self.file_path" for t in e.targets):
                stored.add(norm(e.value))
    for pe in paths:
        tests = [(_exists_test(t)[0], _exists_test(t)[1] == pol) for t, pol in pe.guards if _exists_test(t)[0] is not None]
        if pe.kind == "raise":
            exc = pe.value.func if isinstance(pe.value, ast.Call) else pe.value
            for ptxt, present in tests:
                if not present:
                    refusals.append((ptxt, norm(exc) if exc is not None else "", pe.node))
        else:
            if not any(present and (ptxt == "self.file_path" or ptxt in stored) for ptxt, present in tests):
                completes_unchecked.append(pe)
    on_stored = [r for r in refusals if r[0] == "self.file_path" or r[0] in stored]
    if completes_unchecked or not refusals:
        rep.fail(rule, ct.mod.path.name, "Tdf.__init__", init.node, "opening a path that does not exist is not refused with FileNotFoundError", construct="Tdf.__init__ existence check")
    elif not on_stored:
        rep.fail(rule, ct.mod.path.name, "Tdf.__init__", refusals[0][2], f"existence is tested on `{refusals[0][0]}`, not on the stored path")
    elif any(r[1] != "FileNotFoundError" for r in on_stored):
        bad = next(r for r in on_stored if r[1] != "FileNotFoundError")
        rep.fail(rule, ct.mod.path.name, "Tdf.__init__", bad[2], "opening a path that does not exist is not refused with FileNotFoundError", construct="Tdf.__init__ existence check")
    else:
        rep.ok(rule, "Tdf.__init__: FileNotFoundError when self.file_path does not exist", nontrivial=True)
    # signature check precedes every decoded field
    hu = cd.header
    R = normalise(hu.rterms, "r")
    seen_raw = seen_guard = False
    okk = None
    for t in R:
        if isinstance(t, Raw) and t.op == "read" and not seen_raw:
            seen_raw = True
            sig_raw = t
        elif isinstance(t, GuardFail) and seen_raw and not seen_guard:
            # the refusal condition is the plain inequality of the bytes read and the signature constant (whole-value comparison:
            # no element-wise reduction, no partial slice, no call that could weaken it)
            from ..facts import equality_fact
            ef = equality_fact(t.cond, True)
            while ef is None and isinstance(t.cond, ast.UnaryOp) and isinstance(t.cond.op, ast.Not):
                ef = equality_fact(t.cond.operand, False)
                break
            if ef is None:
                # `not <bytes read>.startswith(SIGNATURE)`: the same test as inequality when exactly len(SIGNATURE) bytes were asked for
                # (read(n) never returns more than n bytes; fewer bytes cannot start with the n-byte signature)
                c_, pol_ = t.cond, True
                while isinstance(c_, ast.UnaryOp) and isinstance(c_.op, ast.Not):
                    c_, pol_ = c_.operand, not pol_
                if not pol_ and isinstance(c_, ast.Call) and isinstance(c_.func, ast.Attribute) and c_.func.attr == "startswith" and len(c_.args) == 1 and not c_.keywords:
                    sigv = c_.args[0]
                    if isinstance(sigv, ast.Attribute) and sigv.attr == "SIGNATURE":
                        sigv = ct.tdf.assigns.get("SIGNATURE", sigv)
                    n_read = ct.ctx.const_int(sig_raw.nbytes) if sig_raw.nbytes is not None else None
                    if isinstance(sigv, ast.Constant) and isinstance(sigv.value, bytes) and n_read == len(sigv.value) == 16 \
                            and not any(isinstance(x, (ast.Call, ast.Subscript)) for x in ast.walk(c_.func.value)):
                        seen_guard = True
            if ef is not None and not ef[2] and not any(isinstance(x, (ast.Call, ast.Subscript)) for side in ef[:2] for x in ast.walk(side)) \
                    and any("SIGNATURE" in norm(side) or (isinstance(side, ast.Constant) and isinstance(side.value, bytes) and len(side.value) == 16) for side in ef[:2]):
                seen_guard = True
        elif isinstance(t, Field) and t.role == "data":
            okk = seen_raw and seen_guard
            break
    enter = ct.prog.need_method(ct.tdf, "__enter__")
    # opening never creates, replaces or deletes a file: 'a path that does not start with the signature is refused' - an open path
    # that turns an empty / foreign file into a container (unlink + new, a create-mode open, a copy) changes an existing file the
    # caller only asked to open, and makes the signature check pass on what it has just written itself
    for f_ in (init, enter):
        for c_ in [x for x in ast.walk(f_.node) if isinstance(x, ast.Call)]:
            nm = norm(c_.func)
            at = c_.func.attr if isinstance(c_.func, ast.Attribute) else None
            creating = [k for k in creating_calls([c_]) if "x" not in k[3] and set(k[3] or "w") & set("wa")]
            if nm in ("os.remove", "os.unlink", "os.rename", "os.replace", "os.truncate", "shutil.move", "shutil.copyfile", "shutil.copy", "shutil.copy2", "Tdf.new", "cls.new", "self.new", "Tdf.copy") \
                    or (at in ("unlink", "rename", "write_bytes", "write_text", "touch") and not isinstance(c_.func.value, ast.Constant)) or creating:
                rep.fail(rule, ct.mod.path.name, f"Tdf.{f_.name}", c_, f"`{norm(c_)[:60]}` on the open path: opening a file creates, replaces or deletes one - a path that is not a TDF is turned into one instead of being refused",
                         construct=f"Tdf.{f_.name} open path calls {nm}")
    if okk:
        n = ct.ctx.const_int(sig_raw.nbytes) if sig_raw.nbytes is not None else None
        rep.ok(rule, f"Tdf.__enter__: the first {n} bytes are compared with SIGNATURE and a mismatch raises before any field is decoded", nontrivial=True)
    else:
        rep.fail(rule, ct.mod.path.name, "Tdf.__enter__", enter.node, "the signature check does not precede the first decoded header field: a non-TDF file would yield data", construct="Tdf.__enter__ signature check")


def _tdf_arg(call):
    if isinstance(call, ast.Call) and norm(call.func) in ("Tdf", "cls"):
        if call.args:
            return call.args[0]
        return next((k.value for k in call.keywords if k.arg == "filename"), None)
    return None


def _open_of(call):
    """(path expression, mode string) of `<p>.open(mode)` / `open(p, mode)`, else None"""
    if not isinstance(call, ast.Call):
        return None
    kw = {k.arg: k.value for k in call.keywords if k.arg}
    if isinstance(call.func, ast.Attribute) and call.func.attr == "open":
        mode = call.args[0] if call.args else kw.get("mode")
        path = call.func.value
    elif norm(call.func) == "open" and (call.args or "file" in kw):
        mode = call.args[1] if len(call.args) > 1 else kw.get("mode")
        path = call.args[0] if call.args else kw["file"]
    else:
        return None
    if mode is None:
        return path, "r"
    if isinstance(mode, ast.Constant) and isinstance(mode.value, str):
        return path, mode.value
    return None


def _hand_copy(ct, f, fq, rep, rule, dsts):
    """A copy written by hand: both files opened in one `with` (source `self.file_path` for binary reading, target the new path for
    binary writing) and the bytes moved by `shutil.copyfileobj`, by one whole `read()`, or by a chunk loop whose only exits are
    'the chunk is empty' or - after the chunk was written - 'the chunk is shorter than what was asked for'.  Returns (number of
    copy constructs decided, ids of the calls that belong to it)."""
    exempt = set()
    n = 0
    for w in [x for x in walk_no_nested(f.node) if isinstance(x, ast.With)]:
        src = dst = None
        for it in w.items:
            o = _open_of(it.context_expr)
            if o is None or not isinstance(it.optional_vars, ast.Name):
                continue
            path, mode = o
            if norm(path) == "self.file_path" and not (set(mode) & WRITE_MODE_CHARS):
                src = (it.optional_vars.id, mode, it.context_expr)
            elif set(mode) & set("wx") and "+" not in mode and "a" not in mode:
                dst = (it.optional_vars.id, mode, it.context_expr, path)
        if not src or not dst:
            continue
        sv, dv = src[0], dst[0]
        if "b" not in src[1] or "b" not in dst[1]:
            rep.fail(rule, ct.mod.path.name, fq, w, f"the copy moves the content through a text-mode handle (`{src[1]}` -> `{dst[1]}`): newline / encoding translation makes it differ from the source")
            return 1, exempt
        defs = ct.prog  # noqa: F841  (kept for symmetry with the other rules)
        exempt.update({id(src[2]), id(dst[2])})
        # the target path is the one built from the caller's argument (locals resolved by the path summaries)
        from ..facts import path_returns
        tpaths = set()
        for pe in path_returns(f.node, assign_calls=True):
            for e in pe.effects:
                o = _open_of(e.value) if isinstance(e, ast.Expr) else None
                if o and set(o[1]) & set("wx"):
                    tpaths.add(norm(o[0]))
                    if any(isinstance(x, ast.Name) and x.id in f.params for x in ast.walk(o[0])) and "self" not in {x.id for x in ast.walk(o[0]) if isinstance(x, ast.Name)}:
                        dsts.add(norm(o[0]))
        dsts.add(norm(dst[3]))
        body_calls = [c for st in w.body for c in ast.walk(st) if isinstance(c, ast.Call)]
        done = False
        for c in body_calls:
            if norm(c.func) == "shutil.copyfileobj" and len(c.args) >= 2:
                exempt.add(id(c))
                if norm(c.args[0]) == sv and norm(c.args[1]) == dv:
                    rep.ok(rule, f"{fq}: shutil.copyfileobj({sv}, {dv}) moves every byte of self.file_path into the new file", nontrivial=True)
                else:
                    rep.fail(rule, ct.mod.path.name, fq, c, f"copy direction is {norm(c.args[0])} -> {norm(c.args[1])}; expected the handle of self.file_path -> the handle of the new path")
                done = True
            elif isinstance(c.func, ast.Attribute) and c.func.attr == "write" and norm(c.func.value) == dv and len(c.args) == 1 \
                    and isinstance(c.args[0], ast.Call) and isinstance(c.args[0].func, ast.Attribute) and c.args[0].func.attr == "read" \
                    and norm(c.args[0].func.value) == sv and not c.args[0].args and not c.args[0].keywords:
                exempt.add(id(c))
                rep.ok(rule, f"{fq}: {dv}.write({sv}.read()) moves the whole content", nontrivial=True)
                done = True
            elif isinstance(c.func, ast.Attribute) and c.func.attr == "write" and norm(c.func.value) == dv and len(c.args) == 1 \
                    and isinstance(c.args[0], ast.Call) and isinstance(c.args[0].func, ast.Attribute) and c.args[0].func.attr == "read" \
                    and norm(c.args[0].func.value) == sv and len(c.args[0].args) == 1 and not c.args[0].keywords:
                # one bounded read: complete only if the bound IS the size the file has now
                exempt.add(id(c))
                done = True
                bound = c.args[0].args[0]
                fs = ("self.file_path.stat().st_size", "os.path.getsize(self.file_path)", "os.stat(self.file_path).st_size")
                okb = norm(bound) in fs
                if norm(bound) == "self.nBytes":
                    g = ct.tdf.get("nBytes", "getter")
                    if ct.tdf.get("nBytes", "cached") is None and g is not None:
                        from ..facts import return_leaves
                        lv = return_leaves(g.node)
                        okb = bool(lv) and all(v is not None and norm(v) in fs for _, v, _ in lv)
                if okb:
                    rep.ok(rule, f"{fq}: one read bounded by the file's current size moves the whole content", nontrivial=True)
                else:
                    rep.fail(rule, ct.mod.path.name, fq, c, f"`{norm(c)[:70]}` copies at most `{norm(bound)}` bytes, which is not (provably) the size the source has now (a remembered / computed size): "
                             "a source that has grown since is copied only in part - not a byte-identical copy", construct=f"{fq} bounded read {norm(bound)}")
        if done:
            n += 1
            continue
        loops = [x for st in w.body for x in ast.walk(st) if isinstance(x, ast.While)]
        if len(loops) != 1:
            continue
        lp = loops[0]
        chunk = size = None
        read_call = None
        test = lp.test
        if isinstance(test, ast.NamedExpr) and isinstance(test.value, ast.Call) and isinstance(test.value.func, ast.Attribute) \
                and test.value.func.attr == "read" and norm(test.value.func.value) == sv:
            chunk, read_call = test.target.id, test.value
        elif not (isinstance(test, ast.Constant) and test.value in (True, 1)):
            continue
        order = []   # ('read'|'write'|'exit', node, detail) in statement order of the loop body (top level only)
        und = False
        for st in lp.body:
            if isinstance(st, ast.Assign) and len(st.targets) == 1 and isinstance(st.targets[0], ast.Name) and isinstance(st.value, ast.Call) \
                    and isinstance(st.value.func, ast.Attribute) and st.value.func.attr == "read" and norm(st.value.func.value) == sv and chunk is None:
                chunk, read_call = st.targets[0].id, st.value
                order.append(("read", st, None))
            elif isinstance(st, ast.Expr) and isinstance(st.value, ast.Call) and isinstance(st.value.func, ast.Attribute) and st.value.func.attr == "write" \
                    and norm(st.value.func.value) == dv and len(st.value.args) == 1 and isinstance(st.value.args[0], ast.Name):
                order.append(("write", st, st.value.args[0].id))
                exempt.add(id(st.value))
            elif isinstance(st, ast.If) and not st.orelse and len(st.body) == 1 and isinstance(st.body[0], ast.Break):
                order.append(("exit", st, st.test))
            else:
                und = True
        if und or chunk is None or read_call is None:
            continue
        if len(read_call.args) > 1 or read_call.keywords:
            continue
        size = norm(read_call.args[0]) if read_call.args else None
        writes = [o for o in order if o[0] == "write"]
        if len(writes) != 1 or writes[0][2] != chunk:
            rep.fail(rule, ct.mod.path.name, fq, lp, f"the copy loop does not write each chunk it read exactly once (`{chunk}` read from {sv}; writes: {[norm(head(o[1])) for o in writes]})")
            n += 1
            continue
        n += 1
        bad = False
        exits = [o for o in order if o[0] == "exit"]
        if not exits and not isinstance(test, ast.NamedExpr):
            continue
        for o in exits:
            t = o[2]
            after_write = order.index(o) > order.index(writes[0])
            tt = norm(t)
            empty = tt in (f"not {chunk}", f"{chunk} == b''", f"len({chunk}) == 0", f"len({chunk}) < 1", f"not len({chunk})")
            if empty:
                continue
            if size is not None and tt == f"len({chunk}) < {size}":
                if not after_write:
                    rep.fail(rule, ct.mod.path.name, fq, o[1], f"the loop leaves on a short chunk before writing it: the last `len < {size}` bytes of the source never reach the copy")
                    bad = True
                continue
            if size is not None and tt in (f"len({chunk}) <= {size}", f"{size} >= len({chunk})"):
                rep.fail(rule, ct.mod.path.name, fq, o[1], f"`{tt}` holds for every chunk ({sv}.read({size}) never returns more than {size} bytes): the loop ends after the first chunk and a "
                         f"source longer than {size} bytes is copied only in part - not a byte-identical copy", construct=f"{fq} copy loop exits after the first chunk")
                bad = True
                continue
            raise AnalysisError(f"{fq}: exit test `{tt}` of the copy loop is not one of the modelled forms")
        if not bad:
            rep.ok(rule, f"{fq}: chunk loop {sv} -> {dv} ends only at the end of the source and writes every chunk", nontrivial=True)
    return n, exempt


def copy_direction(ct, rep, rule="copy-direction"):
    from ..facts import path_returns, return_leaves
    f = ct.prog.need_method(ct.tdf, "copy")
    fq = "Tdf.copy"
    n = 0
    dsts = set()
    counted = set()
    for pe in path_returns(f.node, assign_calls=True):
        for e in pe.effects + ([pe.value] if pe.value is not None else []):
            for c in walk_no_nested(e):
                if isinstance(c, ast.Call) and norm(c.func) in ("shutil.copyfile", "shutil.copy", "shutil.copy2"):
                    if (getattr(c, "lineno", 0), getattr(c, "col_offset", 0), norm(c)) in counted:
                        continue
                    counted.add((getattr(c, "lineno", 0), getattr(c, "col_offset", 0), norm(c)))
                    n += 1
                    kw = {k.arg: k.value for k in c.keywords if k.arg}
                    src = c.args[0] if c.args else kw.get("src")
                    dst = c.args[1] if len(c.args) > 1 else kw.get("dst")
                    fl = kw.get("follow_symlinks")
                    if fl is not None and not (isinstance(fl, ast.Constant) and fl.value is True):
                        rep.fail(rule, ct.mod.path.name, fq, c, "follow_symlinks is disabled: for a symlinked source the 'copy' is another link to the same file, not an independent byte-identical file")
                    dst_from_arg = dst is not None and any(isinstance(x, ast.Name) and x.id in f.params for x in ast.walk(dst)) and "self" not in {x.id for x in ast.walk(dst) if isinstance(x, ast.Name)}
                    if src is not None and norm(src) == "self.file_path" and dst_from_arg:
                        dsts.add(norm(dst))
                        rep.ok(rule, f"{fq}: copies self.file_path -> {norm(dst)} (source first)", nontrivial=True)
                    else:
                        rep.fail(rule, ct.mod.path.name, fq, c, f"copy direction is {norm(src) if src is not None else None} -> {norm(dst) if dst is not None else None}; expected self.file_path -> the new path")
    exempt = set()
    if not n:
        n, exempt = _hand_copy(ct, f, fq, rep, rule, dsts)
    if not n:
        raise AnalysisError(f"{fq}: no shutil copy call (anchor vanished)")
    # byte-identical: after the copy call nothing writes into either file (no handle opened for writing, no codec write)
    for c in walk_no_nested(f.node):
        if not isinstance(c, ast.Call):
            continue
        mode = None
        if isinstance(c.func, ast.Attribute) and c.func.attr == "open":
            mode = c.args[0] if c.args else next((k.value for k in c.keywords if k.arg == "mode"), None)
        elif norm(c.func) == "open":
            mode = c.args[1] if len(c.args) > 1 else next((k.value for k in c.keywords if k.arg == "mode"), None)
        if id(c) in exempt:
            continue
        if mode is not None and not (isinstance(mode, ast.Constant) and isinstance(mode.value, str) and not (set(mode.value) & set("wax+"))):
            rep.fail(rule, ct.mod.path.name, fq, c, f"`{norm(c)[:60]}` opens a file for writing inside copy(): the copy (or the source) is changed after it was copied, so the two are not byte-identical",
                     construct=f"{fq} opens {norm(mode)}")
        if isinstance(c.func, ast.Attribute) and c.func.attr in ("write", "bwrite", "_write", "bpad", "truncate", "write_bytes", "write_text"):
            rep.fail(rule, ct.mod.path.name, fq, c, f"`{norm(c)[:60]}` writes into a file inside copy(): not a byte-identical copy", construct=f"{fq} writes")
    leaves = return_leaves(f.node)
    rets = [s for s in walk_no_nested(f.node) if isinstance(s, ast.Return)]

    def names_new_path(a):
        # shutil.copy* return their destination (the existence test of exists-before-create rules out a directory target)
        if isinstance(a, ast.Call) and norm(a.func) in ("shutil.copyfile", "shutil.copy", "shutil.copy2") and len(a.args) >= 2:
            a = a.args[1]
        return a is not None and (norm(a) in dsts or norm(a) in f.params or (isinstance(a, ast.Call) and norm(a.func) == "Path" and a.args and norm(a.args[0]) in f.params))

    if leaves and all(names_new_path(_tdf_arg(v)) for _, v, _ in leaves):
        rep.ok(rule, f"{fq}: returns a distinct Tdf instance on the new path")
    else:
        rep.fail(rule, ct.mod.path.name, fq, rets[0] if rets else f.node, "copy does not return a new Tdf bound to the new path", construct=f"{fq} return")
    new = ct.prog.need_method(ct.tdf, "new")
    rets = [s for s in walk_no_nested(new.node) if isinstance(s, ast.Return)]
    leaves = return_leaves(new.node)
    created = set()
    for pe in path_returns(new.node):
        for c, path, how, mode in creating_calls(pe.effects):
            created.add(norm(path))

    def names_created(a):
        return a is not None and (norm(a) in created or (norm(a) in new.params and any(norm(a) in c_ for c_ in created)))

    if leaves and all(names_created(_tdf_arg(v)) for _, v, _ in leaves):
        rep.ok(rule, "Tdf.new: returns a Tdf on the path it just created")
    else:
        rep.fail(rule, ct.mod.path.name, "Tdf.new", rets[0] if rets else new.node, "Tdf.new does not return a Tdf bound to the created path", construct="Tdf.new return")


def new_layout(ct, cd, rep, rule="new-layout"):
    hu = cd.header
    f = hu.writer

    def emit(ok, node, text):
        if ok:
            rep.ok(rule, f"Tdf.new: {text}")
        else:
            rep.fail(rule, ct.mod.path.name, "Tdf.new", node if node is not None else f.node, text)

    m = RefMatcher(cd, hu, "w", emit)
    m.match(HEADER, normalise(hu.wterms, "w"))
    M.initial_layout(ct, rep, rule=rule)
    M.unused_size_zero(ct, rep, rule=rule + "/unused-size-zero")
    # the file exists from the first byte on: nothing written after that may be refused, or a stub is left at the target (and every
    # retry gets FileExistsError) - the texts of the empty slots are literals that fit their field
    from ..layout import Str
    for t in [t for t in walk_terms(hu.wterms) if isinstance(t, Str)]:
        v = t.value
        w_ = ct.prog.const_int(ct.mod, t.width)
        fits = isinstance(v, ast.Constant) and isinstance(v.value, str) and w_ is not None and len(v.value) < w_
        if fits:
            try:
                v.value.encode("cp1252")
            except UnicodeEncodeError:
                fits = False
        if fits:
            rep.ok(rule, f"Tdf.new: slot text {v.value!r} is a literal that fits its {w_}-byte field")
        else:
            rep.fail(rule, ct.mod.path.name, "Tdf.new", t.stmt or t.node, f"a new container writes the text `{norm(v)[:50]}` into a {w_}-byte field after the file was created: "
                     "when that text does not fit or is not cp1252 the writer raises and leaves a stub at the target", construct="Tdf.new variable slot text")
    vals = [t for t in walk_terms(hu.wterms) if isinstance(t, Field) and t.role == "data"][:2]
    for t, (nm, want) in zip(vals, (("version", 1), ("nEntries", 14))):
        got = ct.prog.const_int(ct.mod, t.value)
        if got == want:
            rep.ok(rule, f"Tdf.new writes {nm} = {want}")
        else:
            rep.fail(rule, ct.mod.path.name, "Tdf.new", t.stmt or t.node, f"a new container is written with {nm} = {got}, expected {want}")


def container_own_state(prog, rep, rule="container-own-state"):
    """A new or copied file is independent of every other open file only if the container object keeps its table and its
    entries per instance: a mutable object bound in the class body of Tdf / TdfEntry (a list, a dict, an instance of a package
    class) that the methods use is ONE object for all files of the process.  Decided on the class bodies alone."""
    n = 0
    for cname in ("Tdf", "TdfEntry"):
        c = prog.need_cls(cname, "basictdf")
        for name, v in c.assigns.items():
            mutable = isinstance(v, (ast.List, ast.Dict, ast.Set, ast.ListComp, ast.DictComp, ast.SetComp)) \
                or (isinstance(v, ast.Call) and norm(v.func) in ("list", "dict", "set", "bytearray", "defaultdict", "collections.defaultdict", "deque", "collections.deque")) \
                or (isinstance(v, ast.Call) and isinstance(v.func, ast.Name) and prog.resolve_class(c.module, v.func.id) is not None and not prog.is_enum(prog.resolve_class(c.module, v.func.id)))
            if not mutable:
                continue
            n += 1
            # rebound per instance on every construction / context entry?
            rebound = any(isinstance(st, (ast.Assign, ast.AnnAssign)) and any(is_self_attr(t, name) for t in (st.targets if isinstance(st, ast.Assign) else [st.target]))
                          for f in c.all_funcs() if f.name in ("__init__", "__enter__") for st in f.node.body)
            used = [x for f in c.all_funcs() for x in walk_no_nested(f.node)
                    if isinstance(x, ast.Attribute) and x.attr == name and isinstance(x.value, ast.Name) and x.value.id in ("self", "cls", cname)]
            if used and not rebound:
                rep.fail(rule, c.module.path.name, cname, used[0], f"class-level `{name} = {norm(v)[:50]}` is one object shared by every {cname} of the process and is used by its methods "
                         f"(`{norm(used[0])}`): what one open file does to it shows up in every other (a copy is not independent of its original, a later new file inherits it)",
                         construct=f"class {cname}: {name} = {norm(v)[:40]}")
            else:
                rep.ok(rule, f"{cname}.{name}: class-level object is {'rebound per instance' if rebound else 'not used by methods'}")
    rep.ok(rule, f"Tdf / TdfEntry: {n} class-level mutable object(s); table and entries are per-instance state", nontrivial=True)


def refusal_reaches_caller(prog, rep, rule="open-checks"):
    """The refusals of Tdf.__init__ / __enter__ (missing file, wrong signature) reach the caller of every accessor only if nothing
    on the way discards them: the context wrappers of tdfUtils and the two methods have no `return` / `break` / `continue` inside a
    `finally` (which drops the exception in flight) and no handler that swallows the refusal."""
    sites = []
    utils = prog.modules.get("tdfUtils")
    if utils is None:
        raise AnalysisError("anchor vanished: tdfUtils.py")
    for w in utils.functions.values():
        sites.append((utils.path.name, w.qualname, w.node))
    tdf = prog.need_cls("Tdf", "basictdf")
    for mname in ("__init__", "__enter__"):
        f = prog.need_method(tdf, mname)
        sites.append((tdf.module.path.name, f"Tdf.{mname}", f.node))
    n = 0
    for mod, fq, node in sites:
        n += 1
        bad = None
        for tr in [t for t in ast.walk(node) if isinstance(t, ast.Try)]:
            for st in tr.finalbody:
                for x in ast.walk(st):
                    if isinstance(x, (ast.Return, ast.Break, ast.Continue)) and not any(isinstance(p_, (ast.FunctionDef, ast.Lambda)) and any(y is x for y in ast.walk(p_)) for p_ in ast.walk(st) if p_ is not st):
                        bad = (x, f"`{norm(head(x))}` inside `finally` discards the exception in flight: a refused open (missing file, wrong signature) returns a value instead of raising")
            for h in tr.handlers:
                caught = [norm(x) for x in (h.type.elts if isinstance(h.type, ast.Tuple) else [h.type])] if h.type is not None else ["BaseException"]
                broad = any(c_.split(".")[-1] in ("Exception", "BaseException", "OSError", "IOError", "FileNotFoundError") for c_ in caught)
                if broad and not any(isinstance(x, ast.Raise) for x in ast.walk(h)):
                    bad = (h, f"`except {', '.join(caught)}` swallows the refusal of an open that must fail")
        if bad:
            rep.fail(rule, mod, fq, bad[0], bad[1], construct=f"{fq} discards refusal")
        else:
            rep.ok(rule, f"{fq}: nothing between the open checks and the caller discards an exception")
    rep.floor(rule + "/refusal-path", n, 5)


def path_identity(prog, rep, rule="open-checks"):
    """The file an object opens is the one the caller named: `self.file_path` is bound once, in __init__, to the argument (through
    Path(..)); no method re-points it (to a 'similar' name, a resolved twin, a default) before or after the existence check."""
    tdf = prog.need_cls("Tdf", "basictdf")
    init = prog.need_method(tdf, "__init__")
    params = set(init.params)
    n = 0
    for f in tdf.all_funcs():
        for st in walk_no_nested(f.node):
            tgs = st.targets if isinstance(st, ast.Assign) else [st.target] if isinstance(st, (ast.AnnAssign, ast.AugAssign)) else []
            for t in tgs:
                for y in ast.walk(t):
                    if is_self_attr(y, "file_path") and isinstance(y.ctx, ast.Store):
                        n += 1
                        v = getattr(st, "value", None)
                        if isinstance(v, ast.Name) and v.id not in params:
                            defs_ = [a for a in walk_no_nested(f.node) if isinstance(a, (ast.Assign, ast.AnnAssign)) and getattr(a, "value", None) is not None
                                     and any(isinstance(t_, ast.Name) and t_.id == v.id for t_ in (a.targets if isinstance(a, ast.Assign) else [a.target]))]
                            v = defs_[0].value if len(defs_) == 1 else v
                        good = f.name == "__init__" and isinstance(st, (ast.Assign, ast.AnnAssign)) and v is not None and (
                            (isinstance(v, ast.Name) and v.id in params)
                            or (isinstance(v, ast.Call) and norm(v.func) in ("Path", "pathlib.Path") and len(v.args) == 1 and isinstance(v.args[0], ast.Name) and v.args[0].id in params))
                        if good:
                            rep.ok(rule, f"Tdf.{f.name}: `{norm(head(st))}` (the caller's path)")
                        else:
                            rep.fail(rule, tdf.module.path.name, f"Tdf.{f.name}", st, f"`{norm(head(st))[:70]}` re-points the object at another path than the one it was given: a path that does not exist "
                                     "(or is not a TDF) can then yield another file's data instead of being refused", construct=f"Tdf.{f.name} rebinds file_path")
    rep.floor(rule + "/path-stores", n, 1)


def refusal_is_plain(prog, rep, rule="exists-before-create"):
    """The FileExistsError of new / copy is raised as such: building its message runs no code that can fail first (opening the
    existing target to describe it raises whatever that open raises for a non-TDF file)."""
    tdf = prog.need_cls("Tdf", "basictdf")
    n = 0
    for name in ("new", "copy"):
        f = tdf.get(name)
        if f is None:
            raise AnalysisError(f"anchor vanished: Tdf.{name}")
        for r in [x for x in walk_no_nested(f.node) if isinstance(x, ast.Raise) and x.exc is not None]:
            n += 1
            from ..facts import template_call_is_total
            total = {id(z) for y in ast.walk(r.exc) if y is not r.exc and template_call_is_total(tdf.module.tree, y) for z in ast.walk(y)}
            calls = [c for c in ast.walk(r.exc) if isinstance(c, ast.Call) and c is not r.exc and id(c) not in total]
            risky = [c for c in calls if not (isinstance(c.func, ast.Name) and c.func.id in ("str", "repr", "len", "int", "format", "type")
                                              and all(isinstance(a, (ast.Name, ast.Attribute, ast.Constant)) for a in c.args))]
            if risky:
                rep.fail(rule, tdf.module.path.name, f"Tdf.{name}", r, f"the refusal `{norm(head(r))[:70]}` evaluates `{norm(risky[0])[:40]}` while building its message: if that fails "
                         "(e.g. it opens the existing, non-TDF target) the caller gets that exception instead of the refusal", construct=f"Tdf.{name} refusal message calls {norm(risky[0].func)}")
            else:
                rep.ok(rule, f"Tdf.{name}: `{norm(head(r))[:60]}` builds its message without running code that can fail")
    rep.floor(rule + "/refusals", n, 2)


def run(prog, rep):
    rep.attempt(container_own_state, prog, rep)
    rep.attempt(refusal_reaches_caller, prog, rep)
    rep.attempt(path_identity, prog, rep)
    rep.attempt(refusal_is_plain, prog, rep)
    ct = Container(prog)
    cd = Codecs(prog)
    cd.flag_errors(rep)
    rep.explanation = (
        "exists-before-create: every file-creating call in Tdf.new / Tdf.copy is dominated (CFG) by `if p.exists(): raise "
        "FileExistsError` on the same path value built from the argument; new-layout: the layout term of Tdf.new equals the "
        "reference header + 14 empty entries pointing at HDR + 14*ENT with nothing after the table; open-checks: "
        "FileNotFoundError in __init__, signature comparison before the first decoded field in __enter__; copy-direction."
    )
    rep.attempt(exists_before_create, ct, rep)
    rep.attempt(new_layout, ct, cd, rep)
    rep.attempt(open_checks, ct, cd, rep)
    rep.attempt(copy_direction, ct, rep)
    # copy() copies by path: it is byte-identical to the source's content only if mutators leave nothing pending in a buffer
    rep.attempt(M.flush_on_exit, ct, rep, rule="copy-sees-flushed-file")
    rep.not_decided += ["the check-then-create race against another process", "symlinked paths"]
