"""C11 one block per type; accessors agree (DESIGN 3/C11)."""
from __future__ import annotations

import ast
import builtins

from .. import mutrules as M
from ..cfg import CFG
from ..container import Container
from ..index import is_self_attr, walk_no_nested
from ..report import AnalysisError, head, norm

GROUPS = ["data3D", "force_and_torque", "force_platforms_data", "events", "emg", "calibrationData"]


def exc_class(name):
    base = name.split(".")[-1]
    if base == "IOError":
        return OSError
    return getattr(builtins, base, None)


def swallowed_raises(ct, rep, rule="swallowed-raise"):
    n = 0
    for ff in ct.all_facts():
        fn = ff.f.node
        fq = f"Tdf.{ff.f.name}"
        for tr in [t for t in walk_no_nested(fn) if isinstance(t, ast.Try)]:
            for r in [x for b in tr.body for x in ast.walk(b) if isinstance(x, ast.Raise) and x.exc is not None]:
                # skip raises nested in an inner try of this body (handled when that try is visited)
                e = r.exc.func if isinstance(r.exc, ast.Call) else r.exc
                ek = exc_class(norm(e))
                for h in tr.handlers:
                    hk = [exc_class(norm(t)) for t in (h.type.elts if isinstance(h.type, ast.Tuple) else [h.type])] if h.type is not None else [BaseException]
                    catches = ek is not None and any(k is not None and issubclass(ek, k) for k in hk)
                    if not catches:
                        continue
                    n += 1
                    reraises = any(isinstance(x, ast.Raise) for b in h.body for x in ast.walk(b))
                    if reraises:
                        rep.ok(rule, f"{fq}: `raise {norm(e)}` is caught by `except {norm(h.type) if h.type else ''}` which re-raises/translates")
                    else:
                        rep.fail(rule, ct.mod.path.name, fq, r, f"`raise {norm(e)}` sits inside a try whose `except {norm(h.type) if h.type is not None else ''}` swallows it: the documented refusal is dead code")
                    break
    return n


def duplicate_refusal(ct, rep, rule="duplicate-refusal"):
    """Path summaries of add_block over two atoms - P: `some entry has the new block's type`, U: `the new block's type is
    unusedSlot`: every path that reaches a file/table effect is impossible under (P and not U), the paths taken under
    (P and not U) end in ValueError, and no path refuses with that error when P is false."""
    from ..facts import consistent_assignments, path_returns
    ff = ct.facts("add_block")
    fq = "Tdf.add_block"
    fn = ff.f.node
    bp = ff.f.params[0]
    btype = f"{bp}.type"

    def atom_P(e):
        # any(entry.type == block.type for entry in entries)  |  block.type in [entry.type for entry in entries]
        if isinstance(e, ast.Call) and norm(e.func) == "any" and len(e.args) == 1 and isinstance(e.args[0], (ast.GeneratorExp, ast.ListComp)) and len(e.args[0].generators) == 1:
            g = e.args[0].generators[0]
            v = norm(g.target)
            c = e.args[0].elt if not g.ifs else (g.ifs[0] if len(g.ifs) == 1 and norm(e.args[0].elt) == v else None)
            if ct.is_entries(g.iter) and isinstance(c, ast.Compare) and len(c.ops) == 1 and isinstance(c.ops[0], ast.Eq) and {norm(c.left), norm(c.comparators[0])} == {f"{v}.type", btype}:
                return True
        if isinstance(e, ast.Compare) and len(e.ops) == 1 and isinstance(e.ops[0], (ast.In, ast.NotIn)) and norm(e.left) == btype:
            comp = e.comparators[0]
            if isinstance(comp, (ast.ListComp, ast.SetComp, ast.GeneratorExp)) and len(comp.generators) == 1 and ct.is_entries(comp.generators[0].iter) \
                    and not comp.generators[0].ifs and norm(comp.elt) == f"{norm(comp.generators[0].target)}.type":
                return isinstance(e.ops[0], ast.In)
        return None

    def atom_U(e):
        if isinstance(e, ast.Compare) and len(e.ops) == 1 and {norm(e.left), norm(e.comparators[0])} == {btype, "BlockType.unusedSlot"}:
            if isinstance(e.ops[0], (ast.Eq, ast.Is)):
                return True
            if isinstance(e.ops[0], (ast.NotEq, ast.IsNot)):
                return False
        return None

    atoms = {"P": atom_P, "U": atom_U}
    paths = path_returns(fn)
    mentions_P = any(atom_P(x) is not None for pe in paths for t, _ in pe.guards for x in ast.walk(t))
    if not mentions_P:
        # is there any refusal that looks at the block's type at all?
        other = [pe for pe in paths if pe.kind == "raise" and any(btype in norm(t) for t, _ in pe.guards)]
        truthy = [t for pe in other for t, _ in pe.guards if any(isinstance(c, ast.Call) and isinstance(c.func, ast.Attribute) and c.func.attr in ("get_block", "__getitem__") for c in ast.walk(t))]
        if truthy:
            rep.fail(rule, ct.mod.path.name, fq, other[0].node, f"presence is decided by the truthiness of the decoded block (`{norm(truthy[0])}`): an existing but empty block (len 0) counts as absent, and a missing one raises instead")
        elif other:
            t = next(t for t, _ in other[0].guards if btype in norm(t))
            rep.fail(rule, ct.mod.path.name, fq, other[0].node, f"presence test `{norm(t)}` is not a membership test over the entry table (`entry.type == block.type` for some entry): some blocks of the same type are not seen as duplicates")
        else:
            rep.fail(rule, ct.mod.path.name, fq, fn, "no refusal of a block whose type is already present", construct=f"{fq} duplicate check")
        return
    DUP = (True, False)  # P and not U

    def has_effect(pe):
        for e in pe.effects:
            if isinstance(e, ast.Assign) and any(isinstance(t, ast.Subscript) and ct.is_entries(t.value) for t in e.targets):
                return True
            for x in ast.walk(e):
                if isinstance(x, ast.Call) and isinstance(x.func, ast.Attribute) and ((ct.is_handle(x.func.value) and x.func.attr in ("write", "seek", "truncate"))
                                                                                      or (ct.is_entries(x.func.value) and x.func.attr in ("append", "remove", "insert", "pop"))):
                    return True
        return False

    bad_effect = [pe for pe in paths if has_effect(pe) and DUP in consistent_assignments(pe.guards, atoms)]
    refusing = [pe for pe in paths if pe.kind == "raise" and DUP in consistent_assignments(pe.guards, atoms) and any(atom_P(x) is not None for t, _ in pe.guards for x in ast.walk(t))]
    over = [pe for pe in paths if pe.kind == "raise" and any(atom_P(x) is not None for t, _ in pe.guards for x in ast.walk(t))
            and consistent_assignments(pe.guards, atoms) and not (consistent_assignments(pe.guards, atoms) <= {DUP})
            and any(atom_P(x) is not None for x in ast.walk(pe.guards[-1][0]))]
    if bad_effect:
        pe = bad_effect[0]
        rep.fail(rule, ct.mod.path.name, fq, pe.node, "a path reaches the file/table effects although an entry of the new block's type exists (and the type is not unusedSlot): a second block of the same type is added",
                 construct=f"{fq} duplicate reaches effects")
    elif not refusing:
        rep.fail(rule, ct.mod.path.name, fq, fn, "no refusal of a block whose type is already present", construct=f"{fq} duplicate check")
    else:
        excs = set()
        for pe in refusing:
            e = pe.value.func if isinstance(pe.value, ast.Call) else pe.value
            excs.add(norm(e) if e is not None else "")
        # the refusal must be able to leave the function
        from .c07 import escaping
        swallowed = False
        for ev in ff.ev("raise"):
            if any(getattr(pe.node, "lineno", -1) == getattr(ev.stmt, "lineno", -2) for pe in refusing) and not escaping(ff, ev.node):
                swallowed = True
        if swallowed:
            rep.fail(rule, ct.mod.path.name, fq, refusing[0].node, "the duplicate-type refusal cannot leave the function (it is swallowed): a second block of the same type is added")
        elif excs != {"ValueError"}:
            rep.fail(rule, ct.mod.path.name, fq, refusing[0].node, f"a duplicate type is refused with {sorted(excs)}, not ValueError")
        else:
            rep.ok(rule, f"{fq}: a block whose type is present is refused with ValueError that reaches the caller", nontrivial=True)
            rep.ok(rule, f"{fq}: presence is decided by type equality over the whole entry table; no path reaches an effect when it holds", nontrivial=True)
    if over:
        rep.fail(rule, ct.mod.path.name, fq, over[0].node, "the duplicate refusal is also taken when NO entry of the new block's type exists (or for unusedSlot): valid additions are refused",
                 construct=f"{fq} refuses non-duplicates")
    # the decision precedes every effect: no refusing path has already changed the file/table
    late = [pe for pe in refusing if has_effect(pe)]
    if late:
        rep.fail(rule, ct.mod.path.name, fq, late[0].node, "the duplicate check does not dominate the file/table effects")
    else:
        rep.ok(rule, f"{fq}: the duplicate check precedes every effect")


def self_attr_resolves(ct, rep, rule="self-attr-resolves"):
    tdf = ct.tdf
    known = set(tdf.methods) | set(tdf.assigns)
    for f in tdf.all_funcs():
        sn = f.self_name or "self"
        for n in walk_no_nested(f.node):
            if isinstance(n, (ast.Assign, ast.AnnAssign, ast.AugAssign)):
                for t in (n.targets if isinstance(n, ast.Assign) else [n.target]):
                    if is_self_attr(t, self_name=sn):
                        known.add(t.attr)
    cnt = 0
    for f in tdf.all_funcs():
        sn = f.self_name or "self"
        if sn is None:
            continue
        for n in walk_no_nested(f.node):
            if is_self_attr(n, self_name=sn) and isinstance(n.ctx, ast.Load):
                cnt += 1
                if n.attr in known or n.attr.startswith("__"):
                    continue
                st = next((s for s in walk_no_nested(f.node) if isinstance(s, ast.stmt) and any(x is n for x in ast.walk(s)) and not isinstance(s, (ast.If, ast.For, ast.With, ast.Try, ast.FunctionDef))), f.node)
                rep.fail(rule, ct.mod.path.name, f"Tdf.{f.name}" + (".setter" if f.kind == "setter" else ""), st,
                         f"`self.{n.attr}` is read but Tdf defines no method, property or attribute of that name: the call raises AttributeError", construct=f"self.{n.attr}")
    rep.ok(rule, f"Tdf: {cnt} `self.<name>` loads examined against {len(known)} defined names", nontrivial=True)
    rep.floor(rule, cnt, 80)


def block_type_of(ct, expr, mod):
    """BlockType member denoted by an expression: BlockType.x or Class.type"""
    if isinstance(expr, ast.Attribute) and norm(expr.value) == "BlockType":
        return expr.attr
    if isinstance(expr, ast.Attribute) and expr.attr == "type" and isinstance(expr.value, ast.Name):
        k = ct.prog.resolve_class(mod, expr.value.id)
        if k is not None:
            ca = ct.prog.class_attr(k, "type")
            if ca is not None and isinstance(ca[1], ast.Attribute) and norm(ca[1].value) == "BlockType":
                return ca[1].attr
    return None


def presence_type(ct, expr):
    """BlockType member tested by a presence expression over the entry table, or None:
       any(e.type == T for e in entries) | any(e for e in entries if e.type == T) | T in [e.type for e in entries]"""
    def type_test(c, var):
        if isinstance(c, ast.Compare) and len(c.ops) == 1 and isinstance(c.ops[0], (ast.Eq, ast.Is)):
            for a, b in ((c.left, c.comparators[0]), (c.comparators[0], c.left)):
                if isinstance(a, ast.Attribute) and a.attr == "type" and norm(a.value) == var:
                    return block_type_of(ct, b, ct.mod)
        return None

    if isinstance(expr, ast.Call) and norm(expr.func) == "bool" and len(expr.args) == 1:
        return presence_type(ct, expr.args[0])
    if isinstance(expr, ast.Call) and norm(expr.func) == "any" and len(expr.args) == 1 and isinstance(expr.args[0], (ast.GeneratorExp, ast.ListComp)) \
            and len(expr.args[0].generators) == 1:
        g = expr.args[0].generators[0]
        var = norm(g.target)
        if not ct.is_entries(g.iter):
            return None
        if not g.ifs:
            return type_test(expr.args[0].elt, var)
        if len(g.ifs) == 1 and (norm(expr.args[0].elt) == var or (isinstance(expr.args[0].elt, ast.Constant) and bool(expr.args[0].elt.value))):
            return type_test(g.ifs[0], var)
        return None
    if isinstance(expr, ast.Compare) and len(expr.ops) == 1 and isinstance(expr.ops[0], ast.In):
        comp = expr.comparators[0]
        # set(..) / frozenset(..) / list(..) / tuple(..) around the comprehension do not change membership
        while isinstance(comp, ast.Call) and norm(comp.func) in ("set", "frozenset", "list", "tuple") and len(comp.args) == 1 and not comp.keywords:
            comp = comp.args[0]
        if not (isinstance(comp, (ast.ListComp, ast.SetComp, ast.GeneratorExp)) and len(comp.generators) == 1):
            return None
        g = comp.generators[0]
        if ct.is_entries(g.iter) and not g.ifs and isinstance(comp.elt, ast.Attribute) and comp.elt.attr == "type" and norm(comp.elt.value) == norm(g.target):
            return block_type_of(ct, expr.left, ct.mod)
    return None


def accessor_agreement(ct, rep, rule="accessor-agreement"):
    tdf = ct.tdf
    n = 0
    for g in GROUPS:
        getter = tdf.get(g, "getter")
        setter = tdf.get(g, "setter")
        has = tdf.get("has_" + g, "getter")
        if getter is None:
            raise AnalysisError(f"anchor vanished: Tdf.{g} getter")
        n += 1
        types = {}
        # getter: get_block(T)
        calls = [c for c in walk_no_nested(getter.node) if isinstance(c, ast.Call) and isinstance(c.func, ast.Attribute) and c.func.attr in ("get_block", "__getitem__") and norm(c.func.value) == "self"]
        if len(calls) == 1 and calls[0].args:
            types["getter"] = block_type_of(ct, calls[0].args[0], ct.mod)
        else:
            rep.fail(rule, ct.mod.path.name, f"Tdf.{g}", getter.node, "getter does not fetch exactly one block by type", construct=f"Tdf.{g} getter")
        # .. on EVERY path: a getter that hands out a value of its own for an absent type (None, a default) disagrees with
        # get_block / tdf[...] of the same state, which raise
        if len(calls) == 1:
            from ..facts import return_leaves as _leaves
            for guards_, v_, pe_ in _leaves(getter.node):
                via = v_
                if isinstance(via, ast.Name):
                    defs_ = [a for a in walk_no_nested(getter.node) if isinstance(a, ast.Assign) and len(a.targets) == 1 and isinstance(a.targets[0], ast.Name) and a.targets[0].id == via.id]
                    via = defs_[0].value if len(defs_) == 1 else via
                if via is not calls[0] and not (via is not None and norm(via) == norm(calls[0])):
                    rep.fail(rule, ct.mod.path.name, f"Tdf.{g}", pe_.node if pe_.node is not None else getter.node,
                             f"a path of the `{g}` getter returns `{norm(v_) if v_ is not None else 'None'}` instead of the result of get_block: "
                             "for that state the getter and lookup by type disagree (the lookup raises for an absent type)",
                             construct=f"Tdf.{g} getter returns {norm(v_) if v_ is not None else 'None'}")
        # annotated class
        ann = getter.node.returns
        if ann is not None:
            for x in ast.walk(ann):
                if isinstance(x, ast.Name):
                    k = ct.prog.resolve_class(ct.mod, x.id)
                    if k is not None:
                        ca = ct.prog.class_attr(k, "type")
                        if ca is not None and isinstance(ca[1], ast.Attribute) and norm(ca[1].value) == "BlockType" and k.name not in ("Block",):
                            types["class"] = ca[1].attr
        if has is not None:
            from ..facts import return_leaves
            leaves = return_leaves(has.node)
            tts = {presence_type(ct, v) if v is not None else None for _, v, _ in leaves}
            tt = next(iter(tts)) if len(tts) == 1 else None
            types["has"] = tt
            if tt is None:
                rep.fail(rule, ct.mod.path.name, f"Tdf.has_{g}", has.node, "presence predicate is not a type test over the entry table", construct=f"Tdf.has_{g}")
        vals = {v for v in types.values()}
        if len(vals) == 1 and None not in vals:
            rep.ok(rule, f"{g}: " + ", ".join(f"{k}={v}" for k, v in types.items()) + " agree", nontrivial=True)
        else:
            node = has.node if has is not None and types.get("has") != types.get("class", types.get("getter")) else getter.node
            rep.fail(rule, ct.mod.path.name, f"Tdf.{g}", node, f"the accessors of `{g}` name different block types: {types}", construct=f"Tdf.{g} accessor types {sorted(types.items())}")
        if setter is not None:
            fq = f"Tdf.{g}.setter"
            data = setter.params[0]
            from ..facts import path_returns
            okk = True
            why = "setter is not `replace if present else add` on its own group's predicate"
            npaths = 0
            for pe in path_returns(setter.node):
                if pe.kind == "raise":
                    # the setter itself refuses nothing: whatever block is assigned is replaced or added (refusals belong to the
                    # write-context guard and to add_block / replace_block)
                    okk = False
                    why = f"a path of the `{g}` setter raises on its own (`{norm(head(pe.node))[:60]}`): an assignment the property promises to carry out (replace when present, add when absent) is refused"
                    continue
                calls = [x for e in pe.effects + ([ast.Expr(value=pe.value)] if pe.value is not None else []) for x in ast.walk(e)
                         if isinstance(x, ast.Call) and norm(x.func) in ("self.replace_block", "self.add_block")]
                present = None
                for t, pol in pe.guards:
                    while isinstance(t, ast.UnaryOp) and isinstance(t.op, ast.Not):
                        t, pol = t.operand, not pol
                    if is_self_attr(t) and t.attr.startswith("has_"):
                        if t.attr != "has_" + g:
                            okk = False
                            why = f"the setter of `{g}` decides on `self.{t.attr}`: expected `self.has_{g}`"
                        present = pol
                npaths += 1
                want = "self.replace_block" if present else "self.add_block"
                if present is None or len(calls) != 1 or norm(calls[0].func) != want or [norm(a) for a in calls[0].args] != [data] or calls[0].keywords:
                    okk = False
            okk = okk and npaths == 2
            ifx = [x for x in walk_no_nested(setter.node) if isinstance(x, ast.IfExp)]
            if okk:
                rep.ok(rule, f"{fq}: replace when has_{g} else add", nontrivial=True)
            else:
                rep.fail(rule, ct.mod.path.name, fq, ifx[0] if ifx else setter.node, why)
    rep.floor(rule, n, 6)


def count_definition(ct, rep, rule="count-definition"):
    f = ct.prog.need_method(ct.tdf, "__len__")
    from ..facts import return_leaves as _rl
    rets = [s for s in walk_no_nested(f.node) if isinstance(s, ast.Return)]
    _leaves = _rl(f.node)
    if len(_leaves) == 1 and _leaves[0][1] is not None and rets:
        # locals substituted
        rets = [ast.copy_location(ast.Return(value=_leaves[0][1]), rets[-1])]
    okk = False
    if len(rets) == 1:
        v = rets[0].value
        gens = [g for g in ast.walk(v) if isinstance(g, (ast.GeneratorExp, ast.ListComp))]
        if gens and ct.is_entries(gens[0].generators[0].iter) and len(gens[0].generators[0].ifs) == 1:
            c = gens[0].generators[0].ifs[0]
            var = norm(gens[0].generators[0].target)
            if isinstance(c, ast.Compare) and isinstance(c.ops[0], ast.NotEq) and {norm(c.left), norm(c.comparators[0])} == {f"{var}.type", "BlockType.unusedSlot"} \
                    and ((norm(v.func) == "sum" and norm(gens[0].elt) == "1") or norm(v.func) == "len"):
                okk = True
        # sum(entry.type != unusedSlot for entry in entries): a sum of booleans counts the true ones
        if gens and ct.is_entries(gens[0].generators[0].iter) and not gens[0].generators[0].ifs and isinstance(v, ast.Call) and norm(v.func) == "sum" and v.args and v.args[0] is gens[0]:
            c = gens[0].elt
            var = norm(gens[0].generators[0].target)
            if isinstance(c, ast.Compare) and len(c.ops) == 1 and isinstance(c.ops[0], ast.NotEq) and {norm(c.left), norm(c.comparators[0])} == {f"{var}.type", "BlockType.unusedSlot"}:
                okk = True
    if not okk and len(rets) == 1 and isinstance(rets[0].value, ast.BinOp) and isinstance(rets[0].value.op, ast.Sub):
        # len(entries) - (number of entries whose type IS unusedSlot)
        l, r = rets[0].value.left, rets[0].value.right
        def unused_count(e):
            if isinstance(e, ast.Call) and norm(e.func) == "sum" and e.args and isinstance(e.args[0], (ast.GeneratorExp, ast.ListComp)) and len(e.args[0].generators) == 1:
                g = e.args[0].generators[0]
                v_ = norm(g.target)
                c_ = g.ifs[0] if len(g.ifs) == 1 and norm(e.args[0].elt) == "1" else (e.args[0].elt if not g.ifs else None)
                return ct.is_entries(g.iter) and isinstance(c_, ast.Compare) and len(c_.ops) == 1 and isinstance(c_.ops[0], ast.Eq) \
                    and {norm(c_.left), norm(c_.comparators[0])} == {f"{v_}.type", "BlockType.unusedSlot"}
            if isinstance(e, ast.Call) and isinstance(e.func, ast.Attribute) and e.func.attr == "count" and len(e.args) == 1 and norm(e.args[0]) == "BlockType.unusedSlot" \
                    and isinstance(e.func.value, (ast.ListComp,)) and len(e.func.value.generators) == 1 and not e.func.value.generators[0].ifs:
                g = e.func.value.generators[0]
                return ct.is_entries(g.iter) and norm(e.func.value.elt) == f"{norm(g.target)}.type"
            return False
        def all_entries(e):
            return ct.is_entries(e) or (isinstance(e, (ast.ListComp, ast.GeneratorExp)) and len(e.generators) == 1 and not e.generators[0].ifs and ct.is_entries(e.generators[0].iter))
        if isinstance(l, ast.Call) and norm(l.func) == "len" and l.args and all_entries(l.args[0]) and unused_count(r):
            okk = True
    if okk:
        rep.ok(rule, "Tdf.__len__ counts the entries whose type is not unusedSlot", nontrivial=True)
    else:
        rep.fail(rule, ct.mod.path.name, "Tdf.__len__", rets[0] if rets else f.node, "__len__ is not the number of entries with type != unusedSlot")
    b = ct.prog.need_method(ct.tdf, "blocks", "getter")
    from ..facts import return_leaves
    rets = [s for s in walk_no_nested(b.node) if isinstance(s, ast.Return)]
    leaves = return_leaves(b.node)
    okk = False
    if len(leaves) == 1 and isinstance(leaves[0][1], ast.ListComp):
        lc = leaves[0][1]
        g = lc.generators[0]
        var = norm(g.target)
        if ct.is_entries(g.iter) and not g.ifs and isinstance(lc.elt, ast.Call) and norm(lc.elt.func) in ("self.get_block", "self.__getitem__") \
                and len(lc.elt.args) == 1 and norm(lc.elt.args[0]) == f"{var}.type":
            okk = True
    if okk:
        rep.ok(rule, "Tdf.blocks maps get_block over ALL entries in table order", nontrivial=True)
    else:
        rep.fail(rule, ct.mod.path.name, "Tdf.blocks", rets[0] if rets else b.node, "blocks is not [get_block(entry.type) for entry in self.entries]")


def first_of_type(ct, e, key_text):
    """(has default) when e is next(<entry for entry in entries if entry.type == key>[, None]); None otherwise"""
    # entries[[v.type for v in entries].index(key)]: list.index gives the position of the FIRST equal element and raises when there is none
    if isinstance(e, ast.Subscript) and ct.is_entries(e.value) and isinstance(e.slice, ast.Call) and isinstance(e.slice.func, ast.Attribute) and e.slice.func.attr == "index" \
            and len(e.slice.args) == 1 and not e.slice.keywords and norm(e.slice.args[0]) == key_text and isinstance(e.slice.func.value, ast.ListComp) \
            and len(e.slice.func.value.generators) == 1 and not e.slice.func.value.generators[0].ifs and ct.is_entries(e.slice.func.value.generators[0].iter) \
            and norm(e.slice.func.value.elt) == f"{norm(e.slice.func.value.generators[0].target)}.type":
        return False
    if not (isinstance(e, ast.Call) and norm(e.func) == "next" and e.args and isinstance(e.args[0], (ast.GeneratorExp, ast.ListComp)) and len(e.args[0].generators) == 1):
        return None
    g = e.args[0].generators[0]
    v = norm(g.target)
    if not (ct.is_entries(g.iter) and norm(e.args[0].elt) == v and len(g.ifs) == 1):
        return None
    c = g.ifs[0]
    if not (isinstance(c, ast.Compare) and len(c.ops) == 1 and isinstance(c.ops[0], (ast.Eq, ast.Is)) and {norm(c.left), norm(c.comparators[0])} == {f"{v}.type", key_text}):
        return None
    if len(e.args) == 1:
        return False
    if len(e.args) == 2 and isinstance(e.args[1], ast.Constant) and e.args[1].value is None:
        return True
    return None


def lookup_contract(ct, rep, rule="lookup-contract"):
    """Path summaries of get_block: what the guards of each path say about the key's type selects the clause -
    int: the entry is entries[key] and the path has established 0 <= key < len(entries), IndexError otherwise;
    BlockType: the entry is the FIRST entry whose type equals the key, found to exist on that path, an error otherwise;
    anything else: TypeError."""
    from ..facts import path_returns, range_facts, type_facts
    f = ct.prog.need_method(ct.tdf, "get_block")
    key = f.params[0]
    fq = "Tdf.get_block"
    E = f"self.{ct.entries_attr}"
    seen = {"int": 0, "bt": 0, "other": 0, "bt_absent": 0, "int_out": 0}

    def entry_of(pe):
        """the expression whose .offset the handle is positioned at"""
        for e in pe.effects:
            for x in ast.walk(e):
                if isinstance(x, ast.Call) and isinstance(x.func, ast.Attribute) and x.func.attr == "seek" and ct.is_handle(x.func.value) and x.args \
                        and isinstance(x.args[0], ast.Attribute) and x.args[0].attr == "offset":
                    return x.args[0].value
        return None

    for pe in path_returns(f.node):
        tf = type_facts(pe.guards, key)
        cat = "int" if tf.get("int") else ("bt" if tf.get("BlockType") else "other")
        if pe.kind == "raise":
            exc = pe.value.func if isinstance(pe.value, ast.Call) else pe.value
            en = norm(exc) if exc is not None else ""
            if cat == "other":
                seen["other"] += 1
                if en != "TypeError":
                    rep.fail(rule, ct.mod.path.name, fq, pe.node, f"an unsupported key type raises {en}, not TypeError", construct=f"{fq} fallthrough")
            elif cat == "int":
                seen["int_out"] += 1
                lo, up = range_facts(pe.guards, key, f"len({E})")
                if lo and up:
                    rep.fail(rule, ct.mod.path.name, fq, pe.node, "an index INSIDE 0 <= i < len(entries) is refused", construct=f"{fq} int refused in range")
                elif en != "IndexError":
                    rep.fail(rule, ct.mod.path.name, fq, pe.node, f"an out-of-range index raises {en}, not IndexError", construct=f"{fq} int out of range")
            else:
                seen["bt_absent"] += 1
            continue
        ent = entry_of(pe)
        if cat == "int":
            seen["int"] += 1
            lo, up = range_facts(pe.guards, key, f"len({E})")
            if ent is None or norm(ent) != f"{E}[{key}]":
                rep.fail(rule, ct.mod.path.name, fq, pe.node, f"integer lookup does not read the entry at that table position (`{norm(ent) if ent is not None else None}`)", construct=f"{fq} int entry")
            elif not (lo and up):
                missing = "0 <= i" if not lo else "i < len(entries)"
                rep.fail(rule, ct.mod.path.name, fq, pe.node, f"the integer path is not bounded by `{missing}`: index bound check must be `0 <= {key} < len({E})` else IndexError (negative or too large positions reach the table)",
                         construct=f"{fq} int bounds")
            else:
                rep.ok(rule, f"{fq}: integer key bounded by 0 <= i < len(entries) on the path that reads entries[i]", nontrivial=True)
        elif cat == "bt":
            seen["bt"] += 1
            dflt = first_of_type(ct, ent, key) if ent is not None else None
            if dflt is None:
                rep.fail(rule, ct.mod.path.name, fq, pe.node, "lookup by type is not `first entry with entry.type == key, raise when none`", construct=f"{fq} BlockType entry")
                continue
            if dflt:
                found = any(isinstance(t, ast.Compare) and len(t.ops) == 1 and norm(t.left) == norm(ent) and norm(t.comparators[0]) == "None"
                            and (isinstance(t.ops[0], ast.IsNot) == pol) and isinstance(t.ops[0], (ast.Is, ast.IsNot)) for t, pol in pe.guards)
                if not found:
                    rep.fail(rule, ct.mod.path.name, fq, pe.node, "lookup by type proceeds without having found an entry (the default None is used as an entry)", construct=f"{fq} BlockType absent")
                    continue
            rep.ok(rule, f"{fq}: lookup by type takes the first entry of that type, found to exist on the path", nontrivial=True)
        else:
            seen["other"] += 1
            rep.fail(rule, ct.mod.path.name, fq, pe.node, "an unsupported key type does not raise TypeError", construct=f"{fq} fallthrough")
    if not seen["int"]:
        rep.fail(rule, ct.mod.path.name, fq, f.node, "no integer branch", construct=f"{fq} int branch")
    elif not seen["int_out"]:
        rep.fail(rule, ct.mod.path.name, fq, f.node, "integer lookup has no bounds check", construct=f"{fq} int bounds")
    if not seen["bt"]:
        rep.fail(rule, ct.mod.path.name, fq, f.node, "no BlockType branch", construct=f"{fq} BlockType branch")
    elif not seen["bt_absent"]:
        rep.fail(rule, ct.mod.path.name, fq, f.node, "a type that is not in the table does not raise", construct=f"{fq} BlockType absent")
    if seen["other"]:
        rep.ok(rule, f"{fq}: other key types raise TypeError")
    else:
        rep.fail(rule, ct.mod.path.name, fq, f.node, "an unsupported key type does not raise TypeError", construct=f"{fq} fallthrough")
    gi = ct.prog.need_method(ct.tdf, "__getitem__")
    rets = [s for s in walk_no_nested(gi.node) if isinstance(s, ast.Return)]
    if len(rets) == 1 and isinstance(rets[0].value, ast.Call) and norm(rets[0].value.func) == "self.get_block" and [norm(a) for a in rets[0].value.args] == gi.params[:1]:
        rep.ok(rule, "Tdf.__getitem__ delegates to get_block")
    else:
        rep.fail(rule, ct.mod.path.name, "Tdf.__getitem__", rets[0] if rets else gi.node, "__getitem__ does not delegate to get_block(key)")


def absence_of_type(ct, t, pol, type_text):
    """does the fact (t, pol) say that NO entry of the table has type `type_text`?  None when it says nothing about that"""
    def all_of_type(e):
        # [x for x in entries if x.type == T]
        if isinstance(e, (ast.ListComp, ast.GeneratorExp)) and len(e.generators) == 1 and ct.is_entries(e.generators[0].iter) and len(e.generators[0].ifs) == 1 \
                and norm(e.elt) == norm(e.generators[0].target):
            c = e.generators[0].ifs[0]
            v = norm(e.generators[0].target)
            return isinstance(c, ast.Compare) and len(c.ops) == 1 and isinstance(c.ops[0], (ast.Eq, ast.Is)) and {norm(c.left), norm(c.comparators[0])} == {f"{v}.type", type_text}
        return False

    while isinstance(t, ast.UnaryOp) and isinstance(t.op, ast.Not):
        t, pol = t.operand, not pol
    if isinstance(t, ast.Compare) and len(t.ops) == 1 and isinstance(t.comparators[0], ast.Constant) and t.comparators[0].value is None and isinstance(t.ops[0], (ast.Is, ast.IsNot)):
        if first_of_type(ct, t.left, type_text):
            return pol if isinstance(t.ops[0], ast.Is) else not pol
    if all_of_type(t):
        return not pol  # truthiness of the list of matches
    if isinstance(t, ast.Compare) and len(t.ops) == 1 and isinstance(t.left, ast.Call) and norm(t.left.func) == "len" and t.left.args and all_of_type(t.left.args[0]) \
            and isinstance(t.comparators[0], ast.Constant) and t.comparators[0].value == 0:
        if isinstance(t.ops[0], ast.Eq):
            return pol
        if isinstance(t.ops[0], (ast.NotEq, ast.Gt)):
            return not pol
    if isinstance(t, ast.Call) and norm(t.func) == "any" and len(t.args) == 1 and isinstance(t.args[0], (ast.GeneratorExp, ast.ListComp)) and len(t.args[0].generators) == 1:
        g = t.args[0].generators[0]
        v = norm(g.target)
        c = t.args[0].elt if not g.ifs else None
        if ct.is_entries(g.iter) and isinstance(c, ast.Compare) and len(c.ops) == 1 and isinstance(c.ops[0], ast.Eq) and {norm(c.left), norm(c.comparators[0])} == {f"{v}.type", type_text}:
            return not pol
    if isinstance(t, ast.Attribute) and isinstance(t.value, ast.Name) and t.value.id == "self" and t.attr.startswith("has_"):
        return None
    return None


def replace_refusals(ct, rep, rule="replace-refusals"):
    """replace_block (and so every setter on a present type) may refuse only when the type is absent: the removal frees the
    slot the new block needs, so capacity is never a reason. Path summaries: every path that ends in an escaping raise has
    established that no entry of the block's type exists."""
    from ..facts import flat_facts, path_returns
    ff = ct.facts("replace_block")
    fq = "Tdf.replace_block"
    bp = ff.f.params[0]
    n = 0
    for pe in path_returns(ff.f.node):
        if pe.kind != "raise":
            continue
        n += 1
        facts_ = flat_facts(pe.guards)
        absent = any(absence_of_type(ct, t, pol, f"{bp}.type") is True for t, pol in facts_)
        if absent:
            rep.ok(rule, f"{fq}: refuses when no entry of the block's type exists", nontrivial=True)
        else:
            conds = " and ".join(("" if pol else "not ") + norm(t) for t, pol in pe.guards) or "no condition"
            rep.fail(rule, ct.mod.path.name, fq, pe.node, f"replace_block refuses under `{conds[:120]}`: a present block can then not be replaced (e.g. on a full table) although removing it frees its slot")
    if not n:
        rep.fail(rule, ct.mod.path.name, fq, ff.f.node, "replace_block never refuses: replacing an absent block silently adds it", construct=f"{fq} absent refusal")


def replace_composition(ct: Container, rep, rule="replace-composition"):
    """'assigning through a convenience property replaces the existing block': on every path of replace_block that does not
    refuse, the block of the new block's type is removed (self.remove_block(<new>.type | <new> | <the entry found by that
    type>.type)) and then the new block is added (self.add_block(<new>, ..)), in that order.  (That replace_block has no file
    effect of its own is C08's guard-table rule.)"""
    from ..facts import path_returns
    from ..normalize2 import eval_order
    ff = ct.facts("replace_block")
    fq = "Tdf.replace_block"
    bp = ff.f.params[0]
    mod = ct.mod.path.name
    n = 0
    for pe in path_returns(ff.f.node):
        if pe.kind == "raise":
            continue
        n += 1
        calls = []
        for e in pe.effects:
            for x in eval_order(e):
                if isinstance(x, ast.Call) and isinstance(x.func, ast.Attribute) and isinstance(x.func.value, ast.Name) and x.func.value.id == (ff.f.self_name or "self") \
                        and x.func.attr in ("remove_block", "add_block"):
                    calls.append(x)
        rm = next((c for c in calls if c.func.attr == "remove_block"), None)
        ad = next((c for c in calls if c.func.attr == "add_block"), None)

        def arg0(c, kw):
            if c.args:
                return c.args[0]
            return next((k.value for k in c.keywords if k.arg == kw), None)

        if rm is None:
            rep.fail(rule, mod, fq, pe.node, "a path of replace_block that does not refuse never removes the old block: the following add is refused as a duplicate (or a second block of the type appears)",
                     construct=f"{fq} without remove_block")
            continue
        if ad is None:
            rep.fail(rule, mod, fq, pe.node, "a path of replace_block removes the old block and never adds the new one: the block is lost", construct=f"{fq} without add_block")
            continue
        if calls.index(rm) > calls.index(ad):
            rep.fail(rule, mod, fq, pe.node, "replace_block adds the new block before removing the old one: the add is refused as a duplicate", construct=f"{fq} add before remove")
            continue
        ra = arg0(rm, "type")
        rtxt = norm(ra) if ra is not None else None
        ok_r = rtxt in (bp, f"{bp}.type") or (isinstance(ra, ast.Attribute) and ra.attr == "type" and first_of_type(ct, ra.value, f"{bp}.type") is not None)
        aa = arg0(ad, ct.prog.need_method(ct.tdf, "add_block").params[0])
        ok_a = aa is not None and norm(aa) == bp
        if not ok_r:
            rep.fail(rule, mod, fq, rm, f"replace_block removes `{rtxt}`, not the block of the new block's type (`{bp}.type`)", construct=f"{fq} removed type")
        elif not ok_a:
            rep.fail(rule, mod, fq, ad, f"replace_block adds `{norm(aa) if aa is not None else None}`, not the new block `{bp}`", construct=f"{fq} added block")
        else:
            rep.ok(rule, f"{fq}: removes the block of `{bp}.type`, then adds `{bp}`", nontrivial=True)
    if not n:
        raise AnalysisError(f"{fq}: no non-refusing path found")
    rep.floor(rule, n, 1)


def write_context_admission(ct: Container, rep, rule="write-context-admission"):
    """'assigning through a convenience property replaces the existing block or adds it': in the state a write context is in
    (inside a context entered after allow_write(): _inside_context True, _mode read-write, handle open read-write) none of the
    guards of add_block / remove_block / replace_block / the setters - decorator wrappers (path summaries of tdfUtils) and
    the explicit mode checks in the bodies - refuses.  Evaluated with the typestate evaluation of C08 over the write-context
    states the machine reaches."""
    from .c08 import Model, body_guards, eval_guard, wrapper_guards
    model = Model(ct)
    states, _ = model.reachable()
    wstates = [s for s in states if s[0] and s[2] == "rw" and s[3]]
    if not wstates:
        raise AnalysisError("no write-context state is reachable in the typestate machine (allow_write / __enter__ no longer open the file read-write?)")
    wg = wrapper_guards(ct)
    mod = ct.mod.path.name
    n = 0
    targets = [(m, ct.facts(m)) for m in ("add_block", "remove_block", "replace_block")] + [(f"{f.name}.setter", ct.facts(f.name, "setter")) for f in ct.setters()]
    for name, ff in targets:
        fq = f"Tdf.{name}"
        conds = [(d, wg[d][0]) for d in ff.f.decorators if d in wg and wg[d][0] is not None]
        if name in ("add_block", "remove_block"):
            conds += [("explicit mode check", c) for c in body_guards(ct, ff)]
        n += 1
        bad = [(d, s) for d, c in conds for s in wstates if eval_guard(c, s)]
        if bad:
            d, s = bad[0]
            rep.fail(rule, mod, fq, ff.f.node, f"inside a write context (state inside={s[0]}, mode={s[1]!r}) the guard `{d}` refuses {name}: blocks can no longer be added / replaced through it",
                     construct=f"{fq} refused in write context by {d}")
        else:
            rep.ok(rule, f"{fq}: its {len(conds)} guard(s) admit the call in the {len(wstates)} reachable write-context state(s)", nontrivial=bool(conds))
    rep.floor(rule, n, 8)


def position_not_by_truthiness(ct, rep, rule="removal-selects-type"):
    """A table position obtained as `next((n for n, e in enumerate(..) if ..), None)` (or a default of that kind) is absent iff it
    `is None`: a truthiness test takes position 0 - the first slot, the only block of a one-block file - for "not found"."""
    n = 0
    for f in ct.tdf.all_funcs():
        fn = f.node
        idx = set()
        for a in walk_no_nested(fn):
            if isinstance(a, ast.Assign) and len(a.targets) == 1 and isinstance(a.targets[0], ast.Name) and isinstance(a.value, ast.Call) and norm(a.value.func) == "next" \
                    and len(a.value.args) == 2 and isinstance(a.value.args[0], (ast.GeneratorExp, ast.ListComp)) and isinstance(a.value.args[0].elt, ast.Name):
                ge = a.value.args[0]
                for g in ge.generators:
                    if isinstance(g.iter, ast.Call) and norm(g.iter.func) == "enumerate" and isinstance(g.target, ast.Tuple) and g.target.elts and isinstance(g.target.elts[0], ast.Name) \
                            and g.target.elts[0].id == ge.elt.id and not any(k.arg == "start" for k in g.iter.keywords) and len(g.iter.args) == 1:
                        idx.add(a.targets[0].id)
        if not idx:
            continue
        tests = []
        for x in walk_no_nested(fn):
            if isinstance(x, (ast.If, ast.While, ast.IfExp)):
                tests.append(x.test)
            elif isinstance(x, ast.Assert):
                tests.append(x.test)

        def bare(t):
            while isinstance(t, ast.UnaryOp) and isinstance(t.op, ast.Not):
                t = t.operand
            if isinstance(t, ast.BoolOp):
                return next((b for b in map(bare, t.values) if b), None)
            if isinstance(t, ast.Call) and norm(t.func) == "bool" and len(t.args) == 1:
                return bare(t.args[0])
            return t.id if isinstance(t, ast.Name) and t.id in idx else None
        for t in tests:
            n += 1
            v = bare(t)
            if v:
                rep.fail(rule, ct.mod.path.name, f"Tdf.{f.name}", t, f"`{norm(t)}` tests the table position `{v}` by truthiness: position 0 (the first slot) counts as not found, "
                         "so a block stored there cannot be removed or replaced", construct=f"Tdf.{f.name} truthiness of position {v}")
        rep.ok(rule, f"Tdf.{f.name}: positions found by search ({sorted(idx)}) are not tested by truthiness") if not any(bare(t) for t in tests) else None


def removal_selects_type(ct: Container, rep, rule="removal-selects-type"):
    """remove_block(T) removes the block OF TYPE T (replace_block and the setters rely on it: removing another block leaves
    the old one in place and the following add is refused as a duplicate).  Every test that selects an entry of the table
    by its `.type` inside remove_block - a comprehension filter over self.entries / enumerate(self.entries), or an `if`
    inside a loop over them whose true branch captures the entry - states `<entry>.type == <expression of the parameter>`,
    not its negation; a positional search (`[e.type for e in entries].index(T)`) is the same statement by construction."""
    from ..facts import equality_fact
    f = ct.prog.need_method(ct.tdf, "remove_block")
    fq = "Tdf.remove_block"
    param = f.params[0]
    mod = ct.mod.path.name
    found = 0

    def over_entries(it):
        while isinstance(it, ast.Call) and norm(it.func) in ("enumerate", "list", "tuple", "iter", "reversed", "range", "len") and it.args:
            if norm(it.func) == "reversed":
                return False
            it = it.args[-1] if norm(it.func) == "range" else it.args[0]
        return ct.is_entries(it)

    def vars_of(target):
        return {n.id for n in ast.walk(target) if isinstance(n, ast.Name)}

    def judge(test, pol, vs, node):
        nonlocal found
        from ..facts import flat_facts
        for t, p_ in flat_facts([(test, pol)]):
            ef = equality_fact(t, p_)
            if ef is None and isinstance(t, ast.Compare) and len(t.ops) == 1 and isinstance(t.ops[0], (ast.Is, ast.IsNot)):
                ef = (t.left, t.comparators[0], isinstance(t.ops[0], ast.Is) == p_)
            if ef is None:
                continue
            a, b, eq = ef
            for x, y in ((a, b), (b, a)):
                if isinstance(x, ast.Attribute) and x.attr == "type" and any(isinstance(n_, ast.Name) and n_.id in vs for n_ in ast.walk(x.value)) \
                        and any(isinstance(n, ast.Name) and n.id == param for n in ast.walk(y)):
                    found += 1
                    if eq:
                        rep.ok(rule, f"{fq}: the entry to remove is selected by `{norm(t)}`", nontrivial=True)
                    else:
                        rep.fail(rule, mod, fq, node, f"the entry to remove is selected by the NEGATION of the type match (`{norm(t)}` taken {'true' if p_ else 'false'}): a block of another type is removed",
                                 construct=f"{fq} selection predicate")

    for n in ast.walk(f.node):
        if isinstance(n, (ast.GeneratorExp, ast.ListComp, ast.SetComp)):
            for g in n.generators:
                if over_entries(g.iter):
                    vs = vars_of(g.target)
                    for c in g.ifs:
                        judge(c, True, vs, c)
                    # any(e.type == T ...) used as a presence test is not a selection; a filter in the element of next() is
        if isinstance(n, ast.For) and over_entries(n.iter):
            vs = vars_of(n.target)
            for st in ast.walk(n):
                if isinstance(st, ast.If):
                    def captures(block):
                        for b in block:
                            for x in ast.walk(b):
                                if isinstance(x, (ast.Break, ast.Return)):
                                    return True
                                if isinstance(x, ast.Assign) and any(isinstance(v, ast.Name) and v.id in vs for v in ast.walk(x.value)) \
                                        and not any(isinstance(t_, ast.Attribute) for t_ in x.targets):
                                    return True
                                if isinstance(x, ast.Call) and isinstance(x.func, ast.Attribute) and x.func.attr in ("remove", "pop") and ct.is_entries(x.func.value):
                                    return True
                        return False
                    if captures(st.body):
                        judge(st.test, True, vs, st)
                    elif captures(st.orelse):
                        judge(st.test, False, vs, st)
        if isinstance(n, ast.Call) and isinstance(n.func, ast.Attribute) and n.func.attr == "index" and isinstance(n.func.value, (ast.ListComp, ast.Call)):
            lc = n.func.value
            while isinstance(lc, ast.Call) and norm(lc.func) in ("list", "tuple") and lc.args:
                lc = lc.args[0]
            if isinstance(lc, (ast.ListComp, ast.GeneratorExp)) and len(lc.generators) == 1 and over_entries(lc.generators[0].iter) and not lc.generators[0].ifs \
                    and isinstance(lc.elt, ast.Attribute) and lc.elt.attr == "type" and n.args and any(isinstance(x, ast.Name) and x.id == param for x in ast.walk(n.args[0])):
                found += 1
                rep.ok(rule, f"{fq}: the entry to remove is found by position of the type in the list of entry types", nontrivial=True)
    if not found:
        raise AnalysisError(f"{fq}: no test selecting the entry to remove by its type was recognised (anchor vanished or an unmodelled lookup form)")
    rep.floor(rule, found, 1)


def run(prog, rep):
    # one table per file object: a table bound in the class body is shared by every open file of the process
    from .c17 import container_own_state
    rep.attempt(container_own_state, prog, rep)
    ct = Container(prog)
    rep.explanation = (
        "swallowed-raise: a raise lexically inside a try whose handler catches its class (builtin hierarchy) without re-raising is a "
        "dead refusal; duplicate-refusal: add_block's refusal of a present type reaches the caller, is decided over the entry table "
        "(not the truthiness of a decoded block) and dominates every effect; self-attr-resolves: every self.<name> read in Tdf "
        "resolves; accessor-agreement: getter / has_ predicate / setter / decoded class of each convenience group name one block "
        "type; count-definition; lookup-contract."
    )
    for rule in (swallowed_raises, duplicate_refusal, self_attr_resolves, accessor_agreement, count_definition, lookup_contract):
        rep.attempt(rule, ct, rep)
    # the accessors are computed from the in-memory table, re-read from disk on every (implicit) context: they report the live
    # blocks only if every table change is also written to its slot (C10's pairing, a necessary condition here)
    # a freed slot that points anywhere but the end of the data makes the next add overwrite the table or a live block: the set of
    # live blocks a re-read reports is then not the set the session reported
    rep.attempt(lambda: M.offset_provenance(ct, rep))
    rep.attempt(M.dirty_entry, ct, rep, rule="table-pairing")
    rep.attempt(M.slot_position, ct, rep, rule="table-pairing/slot")
    rep.attempt(M.parse_on_enter, ct, rep)
    rep.attempt(replace_refusals, ct, rep)
    rep.attempt(replace_composition, ct, rep)
    rep.attempt(write_context_admission, ct, rep)
    # the accessors used outside a with-block open their own context only while `_inside_context` is False: __exit__ must reset the
    # flags and close the handle on every path (also when the block is left by an exception), or later lookups hit a closed handle
    from .c08 import handle_discipline
    rep.attempt(handle_discipline, ct, rep)
    from .c08 import table_effects_need_writable
    rep.attempt(table_effects_need_writable, ct, rep)
    rep.attempt(removal_selects_type, ct, rep)
    rep.attempt(position_not_by_truthiness, ct, rep)
    # a getter returns THE block of its type only if that block's bytes are where its entry says and are its own: the entry size comes
    # from the block's nBytes at the time of the add (no stale memo), the data is written at the entry's offset, and it has reached the
    # file when the call returns (another object looking up the type finds the block, not an entry pointing past the end)
    from ..codecs import Codecs as _CD, no_stale_derived_state as _nsd
    rep.attempt(_nsd, prog, _CD(prog), rep)
    rep.attempt(ct.check_c02, rep)
    rep.attempt(lambda: M.flush_on_exit(ct, rep))
    # a setter on a present type removes, then adds: the add must not refuse a comment / label that the field can hold (the text
    # primitive refuses exactly what does not fit), or the type silently disappears
    from .c13 import string_write_rules
    rep.attempt(string_write_rules, prog, rep)
    # a live entry can be looked up only if its bytes are where the table says: the removal moves the WHOLE tail up on every path,
    # and an add refuses a live entry behind the slot it takes (C03/C09's rules, necessary here)
    rep.attempt(lambda: M.tail_move(ct, rep))
    rep.attempt(lambda: M.repoint_later(ct, rep))
    # lookup by type / slot / the list of all blocks decode a live entry through _get_block_class: every block type must reach
    # the class that implements it (a stub raises NotImplementedError for a block that presence and count report)
    from .c04 import dispatch_exhaustive
    rep.attempt(dispatch_exhaustive, ct, rep)
    # 'at every point': a refused add/remove must not leave a phantom entry in the in-memory table
    from ..codecs import Codecs
    from .c07 import path_rules
    cd = Codecs(prog)
    rep.attempt(path_rules, ct, cd, rep, names=("add_block", "remove_block"), include_setters=False, prefix="refusal-leaves-table/")
    rep.not_decided += ["accessor agreement on concrete histories (follows from C10's pairing, not re-proved)"]
