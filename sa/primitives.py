"""Primitive summary (DESIGN E1/E2): the field codecs the block interpreters treat as atoms are themselves
checked once - TdfType.read/bread/write/bwrite/skip/pad/bpad/nBytes, BTSString codec agreement, BTSDate."""
from __future__ import annotations

import ast

from .index import Program, walk_no_nested
from .report import AnalysisError, head, norm
from .strings import codec_of, nul_cut

MOD = "tdfTypes.py"


def _ret(f):
    rets = [s for s in walk_no_nested(f.node) if isinstance(s, ast.Return) and s.value is not None]
    return rets


def _calls(f, name):
    return [c for c in walk_no_nested(f.node) if isinstance(c, ast.Call) and norm(c.func) == name]


def tdftype_primitives(prog: Program, rep, rule="primitive-codec"):
    c = prog.need_cls("TdfType", "tdfTypes")
    n = 0

    def need(name):
        return prog.need_method(c, name)

    # read: frombuffer with the codec's own dtype
    f = need("read")
    fb = [x for x in walk_no_nested(f.node) if isinstance(x, ast.Call) and norm(x.func) in ("np.frombuffer", "numpy.frombuffer")]
    n += 1
    if len(fb) == 1 and any(k.arg == "dtype" and norm(k.value) == "self.btype" for k in fb[0].keywords) or (len(fb) == 1 and len(fb[0].args) > 1 and norm(fb[0].args[1]) == "self.btype"):
        rep.ok(rule, "TdfType.read = np.frombuffer(data, dtype=self.btype)")
    else:
        rep.fail(rule, MOD, "TdfType.read", f.node, "read does not decode with np.frombuffer(..., dtype=self.btype): the on-disk type of every field changes", construct="TdfType.read")
    # bread: reads itemsize (single, item [0]) or n*itemsize bytes
    f = need("bread")
    n += 1
    reads = [x for x in walk_no_nested(f.node) if isinstance(x, ast.Call) and isinstance(x.func, ast.Attribute) and x.func.attr == "read" and norm(x.func.value) == f.params[0]]
    sizes = sorted(norm(x.args[0]).replace(" ", "") for x in reads if x.args)
    npar = f.params[1] if len(f.params) > 1 else "n"
    want = sorted(["self.btype.itemsize", f"{npar}*self.btype.itemsize"])
    alt = sorted(["self.btype.itemsize", f"self.btype.itemsize*{npar}"])
    single_ok = any(isinstance(r.value, ast.Subscript) and norm(r.value.slice) == "0" for r in _ret(f))
    if sizes in (want, alt) and single_ok:
        rep.ok(rule, "TdfType.bread reads itemsize bytes (item [0]) or n*itemsize bytes", nontrivial=True)
    else:
        rep.fail(rule, MOD, "TdfType.bread", f.node, f"bread reads {sizes} bytes; expected itemsize for a single item (returning element 0) and n*itemsize for n items", construct="TdfType.bread")
    # write: astype(base).tobytes() / np.array(data, dtype=base).tobytes()
    f = need("write")
    n += 1
    txt = ast.unparse(f.node).replace(" ", "").replace("\n", "")
    ok_arr = "data.astype(self.btype.base).tobytes()" in txt
    ok_sca = "np.array(data,dtype=self.btype.base).tobytes()" in txt
    if ok_arr and ok_sca:
        rep.ok(rule, "TdfType.write = astype(base).tobytes() for arrays, np.array(x, dtype=base).tobytes() for scalars")
    else:
        rep.fail(rule, MOD, "TdfType.write", f.node, "write no longer serialises through the codec's base dtype (astype(self.btype.base).tobytes())", construct="TdfType.write")
    # bwrite: file.write(self.write(data))
    f = need("bwrite")
    n += 1
    ws = [x for x in walk_no_nested(f.node) if isinstance(x, ast.Call) and isinstance(x.func, ast.Attribute) and x.func.attr == "write" and norm(x.func.value) == f.params[0]]
    if len(ws) == 1 and norm(ws[0].args[0]).replace(" ", "") == f"self.write({f.params[1]})":
        rep.ok(rule, "TdfType.bwrite writes exactly write(data)")
    else:
        rep.fail(rule, MOD, "TdfType.bwrite", f.node, "bwrite does not write exactly self.write(data)", construct="TdfType.bwrite")
    # skip: relative seek of n*itemsize
    f = need("skip")
    n += 1
    sk = [x for x in walk_no_nested(f.node) if isinstance(x, ast.Call) and isinstance(x.func, ast.Attribute) and x.func.attr == "seek"]
    npar = f.params[1] if len(f.params) > 1 else "n"
    if len(sk) == 1 and norm(sk[0].args[0]).replace(" ", "") in (f"{npar}*self.btype.itemsize", f"self.btype.itemsize*{npar}") and len(sk[0].args) > 1 and norm(sk[0].args[1]) == "1":
        rep.ok(rule, "TdfType.skip seeks n*itemsize bytes forward (whence=1)")
    else:
        rep.fail(rule, MOD, "TdfType.skip", f.node, "skip is not a relative seek of n*itemsize bytes", construct="TdfType.skip")
    d = f.defaults().get(npar)
    if d is None or norm(d) != "1":
        rep.fail(rule, MOD, "TdfType.skip", f.node, f"default item count of skip is `{norm(d) if d is not None else None}`, not 1", construct="TdfType.skip default")
    # pad / bpad
    f = need("pad")
    n += 1
    r = _ret(f)
    npar = f.params[0] if f.params else "n"
    if len(r) == 1 and norm(r[0].value).replace(" ", "") in (f"b'\\x00'*({npar}*self.btype.itemsize)", f"b'\\x00'*(self.btype.itemsize*{npar})"):
        rep.ok(rule, "TdfType.pad = n*itemsize zero bytes")
    else:
        rep.fail(rule, MOD, "TdfType.pad", f.node, f"pad returns `{norm(r[0].value) if r else None}`, not n*itemsize zero bytes", construct="TdfType.pad")
    d = f.defaults().get(npar)
    if d is None or norm(d) != "1":
        rep.fail(rule, MOD, "TdfType.pad", f.node, "default item count of pad is not 1", construct="TdfType.pad default")
    f = need("bpad")
    n += 1
    ws = [x for x in walk_no_nested(f.node) if isinstance(x, ast.Call) and isinstance(x.func, ast.Attribute) and x.func.attr == "write"]
    npar = f.params[1] if len(f.params) > 1 else "n"
    if len(ws) == 1 and norm(ws[0].args[0]).replace(" ", "") == f"self.pad({npar})":
        rep.ok(rule, "TdfType.bpad writes pad(n)")
    else:
        rep.fail(rule, MOD, "TdfType.bpad", f.node, "bpad does not write exactly self.pad(n)", construct="TdfType.bpad")
    d = f.defaults().get(npar)
    if d is None or norm(d) != "1":
        rep.fail(rule, MOD, "TdfType.bpad", f.node, "default item count of bpad is not 1", construct="TdfType.bpad default")
    # the dtype is stored as given
    init = need("__init__")
    n += 1
    st = [x for x in walk_no_nested(init.node) if isinstance(x, (ast.Assign, ast.AnnAssign)) and norm(x.targets[0] if isinstance(x, ast.Assign) else x.target) == "self.btype"]
    if len(st) == 1 and norm(st[0].value).replace(" ", "") == f"np.dtype({init.params[0]})":
        rep.ok(rule, "TdfType.__init__ stores np.dtype(btype)")
    else:
        rep.fail(rule, MOD, "TdfType.__init__", init.node, "the codec does not store np.dtype(<its argument>)", construct="TdfType.__init__")
    rep.floor(rule, n, 8)


def string_codec(prog: Program, rep, rule="string-codec", with_nul_cut=True):
    cls = prog.need_cls("BTSString", "tdfTypes")
    w = prog.need_method(cls, "write")
    encs = [c for c in walk_no_nested(w.node) if isinstance(c, ast.Call) and isinstance(c.func, ast.Attribute) and c.func.attr == "encode"]
    if not encs:
        raise AnalysisError("BTSString.write no longer encodes its argument")
    wc = None
    for c in encs:
        enc = c.args[0] if c.args else next((k.value for k in c.keywords if k.arg == "encoding"), None)
        errs = c.args[1] if len(c.args) > 1 else next((k.value for k in c.keywords if k.arg == "errors"), None)
        wc = codec_of(enc) if enc is not None else "utf-8"
        if wc != "cp1252":
            rep.fail(rule, MOD, "BTSString.write", c, f"text is encoded with {norm(enc)}, not Windows-1252")
        elif errs is not None and not (isinstance(errs, ast.Constant) and errs.value == "strict"):
            rep.fail(rule, MOD, "BTSString.write", c, f"encode uses errors={norm(errs)}: text is altered instead of refused")
        else:
            rep.ok(rule, "BTSString.write: strict windows-1252")
    for mname in ("read", "bread"):
        f = prog.need_method(cls, mname)
        d = f.defaults().get("encoding")
        if d is not None:
            if codec_of(d) == wc:
                rep.ok(rule, f"BTSString.{mname}: default codec {d.value!r} is the writer's")
            else:
                rep.fail(rule, MOD, f"BTSString.{mname}", d, f"reader default encoding {norm(d)} differs from the writer's codec ({wc}): labels using the differing code points do not survive a round trip")
        decs = [c for c in walk_no_nested(f.node) if isinstance(c, ast.Call) and isinstance(c.func, ast.Attribute) and c.func.attr == "decode"]
        for c in decs:
            a = c.args[0] if c.args else next((k.value for k in c.keywords if k.arg == "encoding"), None)
            if isinstance(a, ast.Constant) and codec_of(a) != wc:
                rep.fail(rule, MOD, f"BTSString.{mname}", c, f"decodes with {norm(a)}, the writer encodes with {wc}")
            errs = c.args[1] if len(c.args) > 1 else next((k.value for k in c.keywords if k.arg == "errors"), None)
            if errs is not None:
                rep.fail(rule, MOD, f"BTSString.{mname}", c, f"decode uses errors={norm(errs)}: stored text is altered on read")
    # bread delegates to read(): it must not decode (or cut) on its own
    br = prog.need_method(cls, "bread")
    fw = [c for c in walk_no_nested(br.node) if isinstance(c, ast.Call) and norm(c.func) == "BTSString.read"]
    own = [c for c in walk_no_nested(br.node) if isinstance(c, ast.Call) and isinstance(c.func, ast.Attribute) and c.func.attr in ("decode", "split", "rstrip", "strip", "partition")]
    rets = [s_ for s_ in walk_no_nested(br.node) if isinstance(s_, ast.Return)]
    if fw and not own and len(rets) == 1 and rets[0].value is fw[0] and len(fw[0].args) >= 2 and norm(fw[0].args[0]) == br.params[1] \
            and isinstance(fw[0].args[1], ast.Call) and norm(fw[0].args[1].func) == f"{br.params[0]}.read" and [norm(a) for a in fw[0].args[1].args] == [br.params[1]]:
        rep.ok(rule, "BTSString.bread = BTSString.read(size, file.read(size)): one place cuts and decodes", nontrivial=True)
    else:
        rep.fail(rule, MOD, "BTSString.bread", rets[0] if rets else br.node, "bread no longer returns BTSString.read(size, file.read(size), ...): the stream path decodes/cuts on its own (bytes after the terminator can reach the codec)")
    if fw and (any(k.arg == "encoding" and norm(k.value) == "encoding" for k in fw[0].keywords) or (len(fw[0].args) > 2 and norm(fw[0].args[2]) == "encoding")):
        rep.ok(rule, "BTSString.bread forwards its encoding to read()")
    elif fw:
        rep.ok(rule, "BTSString.bread uses read()'s default codec")
    if with_nul_cut:
        f, res = nul_cut(prog)
        for ok, st, text in res:
            if ok:
                rep.ok("nul-cut", f"BTSString.read: {text}", nontrivial=True)
            else:
                rep.fail("nul-cut", MOD, "BTSString.read", st, text)
        # the decoded text is returned as is (no strip / case folding)
        for r in [s for s in walk_no_nested(f.node) if isinstance(s, ast.Return)]:
            v = r.value
            if isinstance(v, ast.Call) and isinstance(v.func, ast.Attribute) and v.func.attr != "decode":
                rep.fail("nul-cut", MOD, "BTSString.read", r, f"the decoded text is post-processed by .{v.func.attr}(): valid stored text is not returned identically")


def date_codec(prog: Program, rep, rule="date-codec"):
    dt = prog.need_cls("BTSDate", "tdfTypes")
    fmts = {}
    for mname in ("read", "write"):
        f = prog.need_method(dt, mname)
        for c in walk_no_nested(f.node):
            if isinstance(c, ast.Call) and norm(c.func) in ("struct.pack", "struct.unpack") and c.args and isinstance(c.args[0], ast.Constant):
                fmts[mname] = (c.args[0].value, c)
    if len(fmts) == 2 and fmts["read"][0] == fmts["write"][0]:
        rep.ok(rule, f"BTSDate.read/write share struct format {fmts['read'][0]!r}")
    else:
        f = prog.need_method(dt, "read")
        rep.fail(rule, MOD, "BTSDate.read", fmts.get("read", (None, f.node))[1], f"BTSDate read/write struct formats differ: { {k: v[0] for k, v in fmts.items()} }", construct="BTSDate struct format")
    for mname, inner in (("bread", "BTSDate.read"), ("bwrite", "BTSDate.write")):
        f = prog.need_method(dt, mname)
        if not _calls(f, inner):
            rep.fail(rule, MOD, f"BTSDate.{mname}", f.node, f"{mname} no longer goes through {inner}", construct=f"BTSDate.{mname}")
    br = prog.need_method(dt, "bread")
    rd = [c for c in walk_no_nested(br.node) if isinstance(c, ast.Call) and isinstance(c.func, ast.Attribute) and c.func.attr == "read" and norm(c.func.value) == br.params[0]]
    if rd and norm(rd[0].args[0]) == "4":
        rep.ok(rule, "BTSDate.bread reads 4 bytes")
    else:
        rep.fail(rule, MOD, "BTSDate.bread", br.node, "BTSDate.bread does not read exactly 4 bytes", construct="BTSDate.bread width")
