"""Primitive summary (DESIGN E1/E2): the field codecs the block interpreters treat as atoms are themselves
checked once - TdfType.read/bread/write/bwrite/skip/pad/bpad/nBytes, BTSString codec agreement, BTSDate."""
from __future__ import annotations

import ast

from .index import Program, walk_no_nested
from .report import AnalysisError, head, norm
from .strings import codec_of, nul_cut

MOD = "tdfTypes.py"


def _ret(f):
    rets = [s for s in walk_no_nested(f.node) if isinstance(s, ast.Return) and s.value is not None]
    return rets


def _calls(f, name):
    return [c for c in walk_no_nested(f.node) if isinstance(c, ast.Call) and norm(c.func) == name]


def tdftype_primitives(prog: Program, rep, rule="primitive-codec"):
    """The numeric field codec, decided on path summaries (every way each method can return, locals substituted, same-class
    expression methods such as nBytes(n) expanded) and integer polynomials - not on the spelling of the statements."""
    from .facts import inline_self_calls, path_returns, return_leaves
    from .sym import Ctx, to_poly
    from .poly import Poly

    c = prog.need_cls("TdfType", "tdfTypes")
    ctx = Ctx(prog, c.module, c)
    n = 0

    def need(name):
        return prog.need_method(c, name)

    ITEM = to_poly(ast.parse("self.btype.itemsize", mode="eval").body, ctx)

    def size_is(expr, count):
        """is the byte count `expr` equal to count*itemsize (count: Poly)"""
        e = inline_self_calls(prog, c, expr)
        try:
            p = to_poly(e, ctx)
        except AnalysisError:
            return False
        return p is not None and p == ITEM * count

    def npoly(name):
        return to_poly(ast.Name(id=name, ctx=ast.Load()), ctx)

    def none_test(guards, name):
        """True: the path is taken only when <name> is None; False: only when it is not None; None: undetermined"""
        res = None
        for t, pol in guards:
            if isinstance(t, ast.UnaryOp) and isinstance(t.op, ast.Not):
                t, pol = t.operand, not pol
            if isinstance(t, ast.Compare) and len(t.ops) == 1 and norm(t.left) == name and isinstance(t.comparators[0], ast.Constant) and t.comparators[0].value is None:
                if isinstance(t.ops[0], (ast.Is, ast.Eq)):
                    res = pol
                elif isinstance(t.ops[0], (ast.IsNot, ast.NotEq)):
                    res = not pol
        return res

    def stream_read_size(call, stream):
        if isinstance(call, ast.Call) and isinstance(call.func, ast.Attribute) and call.func.attr == "read" and norm(call.func.value) == stream and len(call.args) == 1:
            return call.args[0]
        return None

    # read: frombuffer with the codec's own dtype
    f = need("read")
    fb = [x for x in walk_no_nested(f.node) if isinstance(x, ast.Call) and norm(x.func) in ("np.frombuffer", "numpy.frombuffer")]
    n += 1
    if len(fb) == 1 and any(k.arg == "dtype" and norm(k.value) == "self.btype" for k in fb[0].keywords) or (len(fb) == 1 and len(fb[0].args) > 1 and norm(fb[0].args[1]) == "self.btype"):
        rep.ok(rule, "TdfType.read = np.frombuffer(data, dtype=self.btype)")
    else:
        rep.fail(rule, MOD, "TdfType.read", f.node, "read does not decode with np.frombuffer(..., dtype=self.btype): the on-disk type of every field changes", construct="TdfType.read")

    # bread: itemsize bytes -> element 0 when n is None; n*itemsize bytes -> the array otherwise
    f = need("bread")
    n += 1
    stream = f.params[0]
    npar = f.params[1] if len(f.params) > 1 else "n"
    problems = []
    seen = {True: 0, False: 0}
    for guards, leaf, pe in return_leaves(f.node):
        single = none_test(guards, npar)
        if leaf is None:
            problems.append("a path returns nothing")
            continue
        inner, indexed = leaf, False
        if isinstance(inner, ast.Subscript) and norm(inner.slice) == "0":
            inner, indexed = inner.value, True
        size = None
        if isinstance(inner, ast.Call) and norm(inner.func) == "self.read" and len(inner.args) == 1:
            size = stream_read_size(inner.args[0], stream)
        if size is None:
            problems.append(f"`{norm(leaf)}` is not self.read({stream}.read(<size>))")
            continue
        if single is None:
            problems.append(f"`{norm(leaf)}` is returned on a path that does not depend on `{npar} is None`")
        elif single:
            seen[True] += 1
            if not indexed:
                problems.append("the single-item path returns the 1-element array, not element 0")
            if not size_is(size, Poly.const(1)):
                problems.append(f"the single-item path reads `{norm(size)}` bytes, not itemsize")
        else:
            seen[False] += 1
            if indexed:
                problems.append("the n-item path returns element 0 only")
            if not size_is(size, npoly(npar)):
                problems.append(f"the n-item path reads `{norm(size)}` bytes, not {npar}*itemsize")
    if not seen[True] or not seen[False]:
        problems.append("no single-item / n-item distinction on `n is None`")
    if not problems:
        rep.ok(rule, "TdfType.bread reads itemsize bytes (item [0]) or n*itemsize bytes", nontrivial=True)
    else:
        rep.fail(rule, MOD, "TdfType.bread", f.node, "bread: " + "; ".join(problems[:3]), construct="TdfType.bread")

    # write: every path returns <conversion to the base dtype>.tobytes()
    f = need("write")
    n += 1
    dpar = f.params[0] if f.params else "data"
    problems = []
    nleaf = 0
    for guards, leaf, pe in return_leaves(f.node):
        nleaf += 1
        if not (isinstance(leaf, ast.Call) and isinstance(leaf.func, ast.Attribute) and leaf.func.attr == "tobytes" and not leaf.args):
            problems.append(f"`{norm(leaf) if leaf is not None else None}` is not <array>.tobytes()")
            continue
        # the reader interprets the bytes row-major (np.frombuffer): tobytes() must dump in C order whatever the memory layout
        bad_kw = [k for k in leaf.keywords if not (k.arg == "order" and isinstance(k.value, ast.Constant) and k.value.value == "C")]
        if bad_kw:
            problems.append(f"`{norm(leaf)}` does not dump the items in C (row-major) order: a column-major array is written transposed")
            continue
        x = leaf.func.value
        is_arr = None
        for t, pol in guards:
            if isinstance(t, ast.UnaryOp) and isinstance(t.op, ast.Not):
                t, pol = t.operand, not pol
            if isinstance(t, ast.Call) and norm(t.func) == "isinstance" and len(t.args) == 2 and norm(t.args[0]) == dpar and norm(t.args[1]) in ("np.ndarray", "numpy.ndarray"):
                is_arr = pol
        conv = None
        if isinstance(x, ast.Call) and isinstance(x.func, ast.Attribute) and x.func.attr == "astype" and norm(x.func.value) == dpar and x.args:
            conv = ("astype", x.args[0])
        elif isinstance(x, ast.Call) and norm(x.func) in ("np.array", "np.asarray", "numpy.array", "numpy.asarray") and x.args and norm(x.args[0]) == dpar:
            dt = next((k.value for k in x.keywords if k.arg == "dtype"), x.args[1] if len(x.args) > 1 else None)
            conv = ("array", dt)
        if conv is None or conv[1] is None or norm(conv[1]) != "self.btype.base":
            problems.append(f"`{norm(x)}` is not a conversion of the data to the codec's base dtype (self.btype.base)")
        elif conv[0] == "astype" and is_arr is not True:
            problems.append("astype is applied to data not known to be an ndarray")
    if nleaf == 0:
        problems.append("no return")
    if not problems:
        rep.ok(rule, "TdfType.write: every path returns <data converted to self.btype.base>.tobytes()")
    else:
        rep.fail(rule, MOD, "TdfType.write", f.node, "write no longer serialises through the codec's base dtype: " + "; ".join(problems[:2]), construct="TdfType.write")

    def stream_writes(f):
        """per non-raising path: the list of <stream>.write(arg) argument expressions"""
        out = []
        for pe in path_returns(f.node):
            if pe.kind == "raise":
                continue
            ws = []
            for e in pe.effects:
                for x in ast.walk(e):
                    if isinstance(x, ast.Call) and isinstance(x.func, ast.Attribute) and x.func.attr == "write" and norm(x.func.value) == f.params[0]:
                        ws.append(x.args[0] if x.args else None)
            out.append(ws)
        return out

    # bwrite: file.write(self.write(data))
    f = need("bwrite")
    n += 1
    paths = stream_writes(f)
    if paths and all(len(ws) == 1 and ws[0] is not None and norm(ws[0]).replace(" ", "") == f"self.write({f.params[1]})" for ws in paths):
        rep.ok(rule, "TdfType.bwrite writes exactly write(data)")
    else:
        rep.fail(rule, MOD, "TdfType.bwrite", f.node, "bwrite does not write exactly self.write(data)", construct="TdfType.bwrite")
    # skip: relative seek of n*itemsize
    f = need("skip")
    n += 1
    sk = [x for x in walk_no_nested(f.node) if isinstance(x, ast.Call) and isinstance(x.func, ast.Attribute) and x.func.attr == "seek"]
    npar = f.params[1] if len(f.params) > 1 else "n"
    whence = None
    if len(sk) == 1:
        whence = sk[0].args[1] if len(sk[0].args) > 1 else next((k.value for k in sk[0].keywords if k.arg == "whence"), None)
    if len(sk) == 1 and sk[0].args and size_is(sk[0].args[0], npoly(npar)) and whence is not None and norm(whence) in ("1", "os.SEEK_CUR", "io.SEEK_CUR", "SEEK_CUR"):
        rep.ok(rule, "TdfType.skip seeks n*itemsize bytes forward (whence=1)")
    else:
        rep.fail(rule, MOD, "TdfType.skip", f.node, "skip is not a relative seek of n*itemsize bytes", construct="TdfType.skip")
    d = f.defaults().get(npar)
    if d is None or norm(d) != "1":
        rep.fail(rule, MOD, "TdfType.skip", f.node, f"default item count of skip is `{norm(d) if d is not None else None}`, not 1", construct="TdfType.skip default")
    # pad / bpad
    f = need("pad")
    n += 1
    npar = f.params[0] if f.params else "n"
    leaves = return_leaves(f.node)

    def zero_times(e, count):
        if isinstance(e, ast.BinOp) and isinstance(e.op, ast.Mult):
            for a, b in ((e.left, e.right), (e.right, e.left)):
                if isinstance(a, ast.Constant) and a.value == b"\x00" and size_is(b, count):
                    return True
        return False

    if leaves and all(leaf is not None and zero_times(leaf, npoly(npar)) for _, leaf, _ in leaves):
        rep.ok(rule, "TdfType.pad = n*itemsize zero bytes")
    else:
        rep.fail(rule, MOD, "TdfType.pad", f.node, f"pad returns `{norm(leaves[0][1]) if leaves and leaves[0][1] is not None else None}`, not n*itemsize zero bytes", construct="TdfType.pad")
    d = f.defaults().get(npar)
    if d is None or norm(d) != "1":
        rep.fail(rule, MOD, "TdfType.pad", f.node, "default item count of pad is not 1", construct="TdfType.pad default")
    f = need("bpad")
    n += 1
    npar = f.params[1] if len(f.params) > 1 else "n"
    paths = stream_writes(f)
    if paths and all(len(ws) == 1 and ws[0] is not None and (norm(ws[0]).replace(" ", "") in (f"self.pad({npar})", f"self.pad(n={npar})") or zero_times(inline_self_calls(prog, c, ws[0]), npoly(npar))) for ws in paths):
        rep.ok(rule, "TdfType.bpad writes pad(n)")
    else:
        rep.fail(rule, MOD, "TdfType.bpad", f.node, "bpad does not write exactly self.pad(n)", construct="TdfType.bpad")
    d = f.defaults().get(npar)
    if d is None or norm(d) != "1":
        rep.fail(rule, MOD, "TdfType.bpad", f.node, "default item count of bpad is not 1", construct="TdfType.bpad default")
    # the dtype is stored as given
    init = need("__init__")
    n += 1
    st = [x for x in walk_no_nested(init.node) if isinstance(x, (ast.Assign, ast.AnnAssign)) and norm(x.targets[0] if isinstance(x, ast.Assign) else x.target) == "self.btype"]
    if len(st) == 1 and norm(st[0].value).replace(" ", "") == f"np.dtype({init.params[0]})":
        rep.ok(rule, "TdfType.__init__ stores np.dtype(btype)")
    else:
        rep.fail(rule, MOD, "TdfType.__init__", init.node, "the codec does not store np.dtype(<its argument>)", construct="TdfType.__init__")
    rep.floor(rule, n, 8)


def string_codec(prog: Program, rep, rule="string-codec", with_nul_cut=True):
    cls = prog.need_cls("BTSString", "tdfTypes")
    w = prog.need_method(cls, "write")
    encs = [c for c in walk_no_nested(w.node) if isinstance(c, ast.Call) and isinstance(c.func, ast.Attribute) and c.func.attr == "encode"]
    if not encs:
        raise AnalysisError("BTSString.write no longer encodes its argument")
    wc = None
    for c in encs:
        enc = c.args[0] if c.args else next((k.value for k in c.keywords if k.arg == "encoding"), None)
        errs = c.args[1] if len(c.args) > 1 else next((k.value for k in c.keywords if k.arg == "errors"), None)
        wc = codec_of(enc) if enc is not None else "utf-8"
        if wc != "cp1252":
            rep.fail(rule, MOD, "BTSString.write", c, f"text is encoded with {norm(enc)}, not Windows-1252")
        elif errs is not None and not (isinstance(errs, ast.Constant) and errs.value == "strict"):
            rep.fail(rule, MOD, "BTSString.write", c, f"encode uses errors={norm(errs)}: text is altered instead of refused")
        else:
            rep.ok(rule, "BTSString.write: strict windows-1252")
    # .. and no call site in the package asks the reader for another codec (a table comment decoded as utf-8 raises on cp1252 text)
    n_sites = 0
    for m in prog.modules.values():
        for fn in [x for c_ in m.classes.values() for x in c_.all_funcs()] + list(m.functions.values()):
            for c in walk_no_nested(fn.node):
                if isinstance(c, ast.Call) and norm(c.func) in ("BTSString.bread", "BTSString.read"):
                    n_sites += 1
                    e_ = next((k.value for k in c.keywords if k.arg == "encoding"), c.args[2] if len(c.args) > 2 else None)
                    if e_ is not None and not (fn.cls is cls and isinstance(e_, ast.Name)):
                        if not (isinstance(e_, ast.Constant) and codec_of(e_) == wc):
                            rep.fail(rule, m.path.name, fn.qualname, c, f"`{norm(c)[:60]}` decodes a field with {norm(e_)}, the writer encodes with {wc}: text using the differing code points comes back changed or makes the decode fail",
                                     construct=f"{fn.qualname} decodes with {norm(e_)}")
    rep.ok(rule, f"{n_sites} string decode call sites use the writer's codec")
    for mname in ("read", "bread"):
        f = prog.need_method(cls, mname)
        d = f.defaults().get("encoding")
        if d is not None:
            if codec_of(d) == wc:
                rep.ok(rule, f"BTSString.{mname}: default codec {d.value!r} is the writer's")
            else:
                rep.fail(rule, MOD, f"BTSString.{mname}", d, f"reader default encoding {norm(d)} differs from the writer's codec ({wc}): labels using the differing code points do not survive a round trip")
        decs = [c for c in walk_no_nested(f.node) if isinstance(c, ast.Call) and isinstance(c.func, ast.Attribute) and c.func.attr == "decode"]
        for c in decs:
            a = c.args[0] if c.args else next((k.value for k in c.keywords if k.arg == "encoding"), None)
            if isinstance(a, ast.Constant) and codec_of(a) != wc:
                rep.fail(rule, MOD, f"BTSString.{mname}", c, f"decodes with {norm(a)}, the writer encodes with {wc}")
            errs = c.args[1] if len(c.args) > 1 else next((k.value for k in c.keywords if k.arg == "errors"), None)
            if errs is not None:
                rep.fail(rule, MOD, f"BTSString.{mname}", c, f"decode uses errors={norm(errs)}: stored text is altered on read")
    # bread delegates to read(): it must not decode (or cut) on its own
    br = prog.need_method(cls, "bread")
    from .strings import bread_delegates
    rets = [s_ for s_ in walk_no_nested(br.node) if isinstance(s_, ast.Return)]
    if bread_delegates(prog):
        rep.ok(rule, "BTSString.bread = BTSString.read(size, file.read(size)): one place cuts and decodes", nontrivial=True)
    else:
        rep.fail(rule, MOD, "BTSString.bread", rets[0] if rets else br.node, "bread no longer returns BTSString.read(size, file.read(size), ...): the stream path decodes/cuts on its own (bytes after the terminator can reach the codec)")
    fw = [c for c in walk_no_nested(br.node) if isinstance(c, ast.Call) and norm(c.func) in ("BTSString.read", "cls.read")]
    if fw and (any(k.arg == "encoding" and norm(k.value) == "encoding" for k in fw[0].keywords) or (len(fw[0].args) > 2 and norm(fw[0].args[2]) == "encoding")):
        rep.ok(rule, "BTSString.bread forwards its encoding to read()")
    elif fw:
        rep.ok(rule, "BTSString.bread uses read()'s default codec")
    if with_nul_cut:
        f, res = nul_cut(prog)
        for ok, st, text in res:
            if ok:
                rep.ok("nul-cut", f"BTSString.read: {text}", nontrivial=True)
            else:
                rep.fail("nul-cut", MOD, "BTSString.read", st, text)
        # the decoded text is returned as is (no strip / case folding)
        for r in [s for s in walk_no_nested(f.node) if isinstance(s, ast.Return)]:
            v = r.value
            if isinstance(v, ast.Call) and isinstance(v.func, ast.Attribute) and v.func.attr != "decode":
                rep.fail("nul-cut", MOD, "BTSString.read", r, f"the decoded text is post-processed by .{v.func.attr}(): valid stored text is not returned identically")


def date_codec(prog: Program, rep, rule="date-codec"):
    dt = prog.need_cls("BTSDate", "tdfTypes")
    fmts = {}
    for mname in ("read", "write"):
        f = prog.need_method(dt, mname)
        for c in walk_no_nested(f.node):
            if isinstance(c, ast.Call) and norm(c.func) in ("struct.pack", "struct.unpack") and c.args and isinstance(c.args[0], ast.Constant):
                fmts[mname] = (c.args[0].value, c)
    if len(fmts) == 2 and fmts["read"][0] == fmts["write"][0]:
        rep.ok(rule, f"BTSDate.read/write share struct format {fmts['read'][0]!r}")
    else:
        f = prog.need_method(dt, "read")
        rep.fail(rule, MOD, "BTSDate.read", fmts.get("read", (None, f.node))[1], f"BTSDate read/write struct formats differ: { {k: v[0] for k, v in fmts.items()} }", construct="BTSDate struct format")
    from .facts import return_leaves, path_returns
    for mname, inner in (("bread", "BTSDate.read"), ("bwrite", "BTSDate.write")):
        f = prog.need_method(dt, mname)
        if _calls(f, inner):
            continue
        # the stream method may spell out the bytes-level method: accept it when, with the inner method's parameter substituted,
        # it evaluates the very same expression
        g = prog.need_method(dt, inner.split(".")[1])
        gl = return_leaves(g.node)
        same = False
        if len(gl) == 1 and gl[0][1] is not None and g.params:
            want = norm(gl[0][1])
            gp = g.params[0]
            if mname == "bwrite":
                args = [x.args[0] for pe in path_returns(f.node) for e in pe.effects for x in ast.walk(e)
                        if isinstance(x, ast.Call) and isinstance(x.func, ast.Attribute) and x.func.attr == "write" and norm(x.func.value) == f.params[0] and x.args]
                same = bool(args) and all(norm(a) == want.replace(gp, f.params[1]) if len(f.params) > 1 else False for a in args)
            else:
                fl = return_leaves(f.node)
                rd_ = f"{f.params[0]}.read("
                same = bool(fl) and all(v is not None and rd_ in norm(v) and norm(v).replace(norm(next(x for x in ast.walk(v) if isinstance(x, ast.Call) and isinstance(x.func, ast.Attribute)
                                                                                                        and x.func.attr == "read" and norm(x.func.value) == f.params[0])), gp) == want
                                         for _, v, _ in fl)
        if not same:
            rep.fail(rule, MOD, f"BTSDate.{mname}", f.node, f"{mname} no longer goes through {inner}", construct=f"BTSDate.{mname}")
        else:
            rep.ok(rule, f"BTSDate.{mname} evaluates the same expression as {inner}")
    # the conversion pair: the stored word is int(<datetime>.timestamp()) and is read back with datetime.fromtimestamp(<word>) -
    # both in the process's local time, so they are inverse for the naive datetimes the library uses; an epoch-plus-timedelta or a
    # UTC conversion on one side only shifts every date by the zone offset
    rl = return_leaves(prog.need_method(dt, "read").node)
    wl = return_leaves(prog.need_method(dt, "write").node)

    def is_from_ts(v):
        # fromtimestamp(*struct.unpack("<i", data)): the one unpacked word passed by unpacking the 1-tuple
        if isinstance(v, ast.Call) and norm(v.func) in ("datetime.fromtimestamp", "datetime.datetime.fromtimestamp") and len(v.args) == 1 and not v.keywords \
                and isinstance(v.args[0], ast.Starred) and isinstance(v.args[0].value, ast.Call) and norm(v.args[0].value.func) in ("struct.unpack", "struct.unpack_from") \
                and v.args[0].value.args and isinstance(v.args[0].value.args[0], ast.Constant) and isinstance(v.args[0].value.args[0].value, str) \
                and len(v.args[0].value.args[0].value.lstrip("<>=!@")) == 1:
            return True
        return isinstance(v, ast.Call) and norm(v.func) in ("datetime.fromtimestamp", "datetime.datetime.fromtimestamp") and len(v.args) == 1 and not v.keywords \
            and isinstance(v.args[0], ast.Subscript) and isinstance(v.args[0].slice, ast.Constant) and v.args[0].slice.value == 0 \
            and isinstance(v.args[0].value, ast.Call) and norm(v.args[0].value.func) in ("struct.unpack", "struct.unpack_from")      # the stored word itself, not a clamped / shifted one

    def is_to_ts(v):
        if not (isinstance(v, ast.Call) and norm(v.func) == "struct.pack" and len(v.args) == 2):
            return False
        a = v.args[1]
        return isinstance(a, ast.Call) and norm(a.func) == "int" and len(a.args) == 1 and isinstance(a.args[0], ast.Call) and isinstance(a.args[0].func, ast.Attribute) \
            and a.args[0].func.attr == "timestamp" and not a.args[0].args and isinstance(a.args[0].func.value, ast.Name)

    if rl and all(v is not None and is_from_ts(v) for _, v, _ in rl) and wl and all(v is not None and is_to_ts(v) for _, v, _ in wl):
        rep.ok(rule, "BTSDate: stored word = int(d.timestamp()), read back with datetime.fromtimestamp(word) (inverse pair, local time on both sides)", nontrivial=True)
    else:
        badr = next((v for _, v, _ in rl if v is None or not is_from_ts(v)), None)
        f_ = prog.need_method(dt, "read" if badr is not None or not rl else "write")
        rep.fail(rule, MOD, f"BTSDate.{f_.name}", f_.node, "the date conversion is no longer the pair int(d.timestamp()) / datetime.fromtimestamp(word): "
                 f"read returns `{norm(rl[0][1]) if rl and rl[0][1] is not None else None}`, write `{norm(wl[0][1]) if wl and wl[0][1] is not None else None}` - dates shift by the zone offset or lose range",
                 construct="BTSDate conversion pair")
    br = prog.need_method(dt, "bread")
    rd = [c for c in walk_no_nested(br.node) if isinstance(c, ast.Call) and isinstance(c.func, ast.Attribute) and c.func.attr == "read" and norm(c.func.value) == br.params[0]]
    if rd and norm(rd[0].args[0]) == "4":
        rep.ok(rule, "BTSDate.bread reads 4 bytes")
    else:
        rep.fail(rule, MOD, "BTSDate.bread", br.node, "BTSDate.bread does not read exactly 4 bytes", construct="BTSDate.bread width")
