"""Matches E2 layout terms (writer or reader side) against the reference layout table (C06)."""
from __future__ import annotations

import ast
import re

from .layout import Alt, Date, Fail, Field, Raw, Rep, Str, Sub, has_stream, show
from .poly import Poly
from .reference_layout import UNITS
from .report import AnalysisError, norm
from .sym import C, N, canon, equal, to_poly, apply_equiv
from .unify import GuardFail, Unifier, kclass, normalise


def nname(s):
    return re.sub(r"[^a-z0-9]", "", s.lower())


class RefMatcher:
    def __init__(self, cd, unit, side, emit):
        self.cd = cd
        self.u = unit
        self.side = side
        self.emit = emit  # emit(ok, node, text)
        self.un: Unifier = cd.unify(unit)
        self.ctx = self.un.ctx
        self.count_val = {}  # ref count name -> writer value ast / reader placeholder name
        self.ref_names = []
        self.attr_at = []  # (ref name, attr name, node)
        self.nmatched = 0

    def spawn(self, emit=None):
        return RefMatcher(self.cd, self.u, self.side, emit or self.emit)

    # ------------------------------------------------------------------ helpers
    def ok(self, t, text):
        self.nmatched += 1
        self.emit(True, _node(t), text)

    def bad(self, t, text):
        self.emit(False, _node(t), text)

    def stream(self, terms):
        return [t for t in terms if has_stream(t) or isinstance(t, Alt) and any(has_stream(x) for x in t.then + t.orelse)]

    def kind_ok(self, dt, kind, size, shape):
        if dt.kind == "V":
            n = 1
            for x in shape:
                n *= x
            sc = dt.scalars()
            return len(sc) == n and all(s == size and (k == kind or (kind == "x" and k in "iu")) for k, s in sc)
        if dt.size != size or tuple(dt.shape) != tuple(shape):
            return False
        if kind == "x":
            return dt.kind in ("i", "u")
        return dt.kind == kind

    def reader_count_is(self, expr, name):
        """reader count expression is the value read at count field `name` (or that int)."""
        if isinstance(name, int):
            return self.ctx.const_int(self.un.rsub(expr)) == name
        ph = self.count_val.get(name)
        if ph is None:
            return False
        e = expr
        return isinstance(e, ast.Name) and e.id == ph or norm(e) == ph

    def writer_count_is(self, f: Field, name):
        saved = dict(self.un.wvars)
        try:
            items, per = self.un.witems(f)
        finally:
            self.un.wvars = saved
        if isinstance(name, int):
            return items.const_value() == name, str(items)
        cv = self.count_val.get(name)
        if cv is None:
            return False, str(items)
        want = to_poly(cv, self.ctx)
        return apply_equiv(items, self.ctx) == apply_equiv(want, self.ctx), str(items)

    # ------------------------------------------------------------------ matching
    def match(self, ref, terms):
        terms = [t for t in terms if has_stream(t)]
        i = 0
        self.ref_names += [r[1] for r in ref if r[0] in ("f", "a", "s", "d")]
        for r in ref:
            t = terms[i] if i < len(terms) else None
            kind = r[0]
            if kind == "alt":
                i = self.match_alt(r, terms, i)
                continue
            if t is None:
                self.emit(False, self.u.writer.node if self.side == "w" else self.u.reader.node,
                          f"layout field {r[:2]} has no counterpart: the {'writer' if self.side == 'w' else 'reader'} ends early")
                continue
            i += 1
            getattr(self, "m_" + kind)(r, t)
        for t in terms[i:]:
            self.bad(t, f"extra on-disk field `{show([t])[0].strip()}` after the last field of the reference layout")

    def m_f(self, r, t):
        name, kind, size, shape = r[1], r[2], r[3], r[4]
        opts = r[5] if len(r) > 5 else {}
        if not isinstance(t, Field) or t.role != "data":
            return self.bad(t, f"layout field `{name}` ({kind}{size}{list(shape) or ''}) is `{show([t])[0].strip()}` in the code")
        if not self.kind_ok(t.dt, kind, size, shape):
            return self.bad(t, f"layout field `{name}` is {kind}{size}{list(shape) or ''}; the code uses {t.dt.describe()}")
        if self.side == "w":
            saved = dict(self.un.wvars)
            items, per = self.un.witems(t)
            self.un.wvars = saved
            if items.const_value() != 1:
                return self.bad(t, f"layout field `{name}` is a single item; the writer emits {items} items")
            self.count_val[name] = t.value
            b = opts.get("bias", 0)
            if b:
                p = to_poly(t.value, self.ctx)
                if p is None or p.t.get((), 0) != b or len([k for k in p.t if k != ()]) != 1:
                    return self.bad(t, f"layout field `{name}` is stored with bias {b}; the writer stores `{norm(t.value)}`")
            self.note_attr(name, t.value, t)
        else:
            if t.count is not None:
                return self.bad(t, f"layout field `{name}` is a single item; the reader reads `{norm(t.count)}` items")
            self.count_val[name] = t.ph
        self.ok(t, f"{name}: {kind}{size}{list(shape) or ''}")

    def m_a(self, r, t):
        name, kind, size, shape, cnt = r[1], r[2], r[3], r[4], r[5]
        if not isinstance(t, Field) or t.role != "data":
            return self.bad(t, f"layout array `{name}` is `{show([t])[0].strip()}` in the code")
        if not self.kind_ok(t.dt, kind, size, shape):
            return self.bad(t, f"layout array `{name}` has elements {kind}{size}{list(shape) or ''}; the code uses {t.dt.describe()}")
        if self.side == "w":
            good, got = self.writer_count_is(t, cnt)
            if not good:
                nd = _node(t)
                if nd is not None:
                    import copy as _copy
                    nd = _copy.copy(nd)
                    nd._sa_construct = f"layout array {name} element count"
                return self.emit(False, nd, f"layout array `{name}` has `{cnt}` elements; the writer emits {got}")
            self.note_attr(name, t.value, t)
        else:
            if t.count is None or not self.reader_count_is(t.count, cnt):
                return self.bad(t, f"layout array `{name}` has `{cnt}` elements; the reader reads `{norm(t.count)}`")
        self.ok(t, f"{name}: {cnt} x {kind}{size}{list(shape) or ''}")

    def m_pad(self, r, t):
        n = r[1]
        b = self.un.fixed_bytes(t)
        is_pad = self.un.is_pad(t) if self.side == "w" else (self.un.is_skip(t) or isinstance(t, Field) and t.role == "skip")
        if b == n and is_pad:
            return self.ok(t, f"pad {n}")
        if b == n and self.side == "r":
            # read but unused is tolerated here (C12 decides whether it is interpreted)
            return self.ok(t, f"pad {n} (consumed)")
        self.bad(t, f"layout has {n} reserved bytes here; the code has `{show([t])[0].strip()}`")

    def m_s(self, r, t):
        name, w = r[1], r[2]
        if not isinstance(t, Str):
            return self.bad(t, f"layout string `{name}`[{w}] is `{show([t])[0].strip()}` in the code")
        if self.ctx.const_int(t.width) != w:
            return self.bad(t, f"layout string `{name}` is {w} bytes wide; the code uses {norm(t.width)}")
        if self.side == "w":
            self.note_attr(name, t.value, t)
        else:
            self.ph_at = getattr(self, "ph_at", []) + [(name, t.ph)]
        self.ok(t, f"{name}: str[{w}]")

    def m_d(self, r, t):
        if not isinstance(t, Date):
            return self.bad(t, f"layout date `{r[1]}` is `{show([t])[0].strip()}` in the code")
        if self.side == "w":
            self.note_attr(r[1], t.value, t)
        else:
            self.ph_at = getattr(self, "ph_at", []) + [(r[1], t.ph)]
        self.ok(t, f"{r[1]}: date32")

    def m_raw(self, r, t):
        if isinstance(t, Raw) and t.nbytes is not None and self.ctx.const_int(self.un.rsub(t.nbytes)) == r[1]:
            return self.ok(t, f"raw[{r[1]}]")
        self.bad(t, f"layout has {r[1]} raw bytes; the code has `{show([t])[0].strip()}`")

    def sub_class_names(self, t: Sub):
        if t.cls is not None:
            return [t.cls.name]
        out = []
        for w, rr, a, k in self.un.sub_args:
            if w is t or (w.recv is not None and t.recv is not None and norm(w.recv) == norm(t.recv)):
                if rr.cls is not None:
                    out.append(rr.cls.name)
        return out

    def sub_class_name(self, t: Sub, want=None):
        names = self.sub_class_names(t)
        if want is not None and want in names:
            return want
        return names[0] if names else None

    def m_sub(self, r, t):
        name, uname = r[1], r[2]
        if not isinstance(t, Sub):
            return self.bad(t, f"layout record `{name}` ({uname}) is `{show([t])[0].strip()}` in the code")
        k = self.sub_class_name(t, uname)
        if k != uname:
            return self.bad(t, f"layout record `{name}` is a {uname}; the code uses {k}")
        self.ok(t, f"{name}: {uname}")

    def m_rep(self, r, t):
        cnt, uname = r[1], r[2]
        if not isinstance(t, Rep):
            return self.bad(t, f"layout repeats {uname} x {cnt}; the code has `{show([t])[0].strip()}`")
        body = [x for x in t.body if has_stream(x)]
        # count linkage
        if self.side == "w":
            if t.kind == "coll":
                n = ast.Call(func=N("len"), args=[t.over], keywords=[])
            else:
                n = ast.BinOp(left=t.hi, op=ast.Sub(), right=t.lo)
            cv = self.count_val.get(cnt)
            good = cv is not None and equal(n, cv, self.ctx)
        else:
            good = t.kind == "range" and norm(t.lo) == "0" and (self.reader_count_is(t.hi, cnt) or self.reader_attr_count(t.hi, cnt))
        if not good:
            return self.bad(t, f"layout repeats {uname} `{cnt}` times; the code's loop bound is not the value of field `{cnt}`")
        if len(body) == 1 and isinstance(body[0], Sub):
            k = self.sub_class_name(body[0], uname)
            if k == uname or (k is None and self.side == "w"):
                return self.ok(t, f"{cnt} x {uname}")
            return self.bad(t, f"layout repeats {uname}; the code repeats {k}")
        # inline fields (Tdf.new writes the entries inline)
        sub = self.spawn()
        sub.count_val = dict(self.count_val)
        sub.un.wvars = dict(self.un.wvars)
        for v in t.vars:
            sub.un.wvars[v] = t
        sub.match(UNITS[uname], body)
        self.nmatched += sub.nmatched
        self.ok(t, f"{cnt} x inline {uname}")

    def reader_attr_count(self, expr, cnt):
        # header reader: loop bound is self.nEntries which was installed from the count field
        ph = self.count_val.get(cnt)
        if ph is None:
            return False
        for t in self.u.rterms:
            if t.__class__.__name__ == "Install" and norm(expr) == f"{t.var}.{t.attr}" and norm(t.value) == ph:
                return True
        return False

    def m_segtable(self, r, t):
        cnt = r[1]
        if self.side == "w":
            body = [x for x in t.body if has_stream(x)] if isinstance(t, Rep) else []
            if isinstance(t, Rep) and t.kind == "coll" and len(body) == 2 and all(isinstance(x, Field) and x.dt.kind in ("i", "u") and x.dt.size == 4 and x.dt.nscalars == 1 for x in body):
                cv = self.count_val.get(cnt)
                if cv is not None and equal(ast.Call(func=N("len"), args=[t.over], keywords=[]), cv, self.ctx):
                    self._seg = t.over
                    v = t.vars[0]
                    a = canon(body[0].value, self.ctx).replace(" ", "")
                    b = canon(body[1].value, self.ctx).replace(" ", "")
                    if a == f"{v}.start" and b == f"-1*{v}.start+{v}.stop":
                        return self.ok(t, f"segment table: {cnt} x (i4 start, i4 count)")
                    return self.bad(t, f"segment table rows must be (startFrame, nFrames); the writer emits ({norm(body[0].value)}, {norm(body[1].value)})")
                return self.bad(t, f"segment table has `{cnt}` rows; the writer's loop is over something else")
            if isinstance(t, Field) and t.dt.kind == "V":
                return self.bad(t, "structured segment-table write is not modelled")
            return self.bad(t, f"layout has the segment table here; the code has `{show([t])[0].strip()}`")
        if isinstance(t, Field) and t.dt.kind == "V" and [(k, s) for k, s in t.dt.scalars()] in ([("i", 4), ("i", 4)], [("u", 4), ("u", 4)]) \
                and [n for n, _ in t.dt.fields][0].lower().startswith("start") and t.count is not None and self.reader_count_is(t.count, cnt):
            self._seg = t.ph
            return self.ok(t, f"segment table: {cnt} x (i4 start, i4 count)")
        self.bad(t, f"layout has `{cnt}` rows of (i4 startFrame, i4 nFrames) here; the reader has `{show([t])[0].strip()}`")

    def m_segdata(self, r, t):
        want = []
        for kind, size, n in r[1]:
            want += [(kclass(kind), size)] * n
        if not isinstance(t, Rep):
            return self.bad(t, f"layout has the per-run sample data here; the code has `{show([t])[0].strip()}`")
        seg = getattr(self, "_seg", None)
        if self.side == "w":
            if t.kind != "coll" or seg is None or canon(t.over, self.ctx) != canon(seg, self.ctx):
                return self.bad(t, "sample data loop does not iterate the runs of the segment table")
        else:
            if t.kind != "rows" or seg is None or norm(t.over) != seg:
                return self.bad(t, "sample data loop does not iterate the rows of the segment table")
        body = [x for x in t.body if has_stream(x)]
        got = []
        per_frame = True
        if len(body) == 1 and isinstance(body[0], Rep) and body[0].kind == "range":
            inner = [x for x in body[0].body if has_stream(x)]
            for x in inner:
                if not isinstance(x, Field):
                    return self.bad(x, "unexpected term in the per-frame loop")
                got += [(kclass(k), s) for k, s in x.dt.scalars()]
        elif len(body) == 1 and isinstance(body[0], Field):
            got = [(kclass(k), s) for k, s in body[0].dt.scalars()]
        else:
            return self.bad(t, "per-run data shape not recognised")
        if got == want:
            return self.ok(t, f"per frame of each run: {want}")
        self.bad(t, f"layout stores per frame {want}; the code stores {got}")

    def m_grid(self, r, t):
        name, kind, size, dims = r[1], r[2], r[3], r[4]
        if not isinstance(t, Field) or not self.kind_ok(t.dt, kind, size, ()):
            return self.bad(t, f"layout has the {kind}{size} count grid here; the code has `{show([t])[0].strip()}`")
        self._grid = t
        self.ok(t, f"count grid {kind}{size}[{dims[0]}][{dims[1]}]")

    def m_cells(self, r, t):
        kind, size, shape = r[2], r[3], r[4]
        # outer loop, inner loop, optional guard, one Field whose count is grid[inner, outer]
        if not (isinstance(t, Rep) and t.kind == "range"):
            return self.bad(t, "cell data loop nest not found")
        inner = [x for x in t.body if has_stream(x)]
        if not (len(inner) == 1 and isinstance(inner[0], Rep) and inner[0].kind == "range"):
            return self.bad(t, "cell data loop nest not found")
        ov, iv = t.vars[0], inner[0].vars[0]
        body = [x for x in inner[0].body if has_stream(x)]
        if len(body) == 1 and isinstance(body[0], Alt):
            body = [x for x in body[0].then if has_stream(x)]
        if not (len(body) == 1 and isinstance(body[0], Field) and self.kind_ok(body[0].dt, kind, size, shape)):
            return self.bad(t, f"cells must hold {kind}{size}{list(shape)} items")
        f = body[0]
        g = getattr(self, "_grid", None)
        good = False
        if self.side == "r":
            # count = grid.reshape([A, B])[iv, ov] with A the inner extent and B the outer extent
            c = f.count
            if isinstance(c, ast.Subscript) and isinstance(c.slice, ast.Tuple) and [norm(x) for x in c.slice.elts] == [iv, ov]:
                v = c.value
                if isinstance(v, ast.Call) and isinstance(v.func, ast.Attribute) and v.func.attr == "reshape" and v.args:
                    shp = v.args[0].elts if isinstance(v.args[0], (ast.List, ast.Tuple)) else list(v.args)
                    if len(shp) == 2 and norm(shp[0]) == norm(inner[0].hi) and norm(shp[1]) == norm(t.hi) and g is not None and norm(v.func.value) == g.ph:
                        good = True
        else:
            # writer: grid allocated (inner extent, outer extent), filled at [iv', ov'] with len(cell[ov', iv']); cell written = data[ov, iv]
            if g is not None and isinstance(g.value, ast.Call) and isinstance(g.value.func, ast.Attribute) and isinstance(g.value.func.value, ast.Name):
                gname = g.value.func.value.id
                shp = self.un.grid_shape(gname)
                st = self.un.wgrid.get(gname, [])
                if shp and len(shp) == 2 and equal(shp[0], inner[0].hi, self.ctx) and equal(shp[1], t.hi, self.ctx) and len(st) == 1:
                    sidx, sval, scond = st[0]
                    if isinstance(sidx, ast.Tuple) and len(sidx.elts) == 2:
                        a, b = norm(sidx.elts[0]), norm(sidx.elts[1])
                        if isinstance(f.value, ast.Subscript) and isinstance(f.value.slice, ast.Tuple):
                            cell = f.value
                            want_len = norm(ast.Call(func=N("len"), args=[ast.Subscript(value=cell.value, slice=ast.Tuple(elts=[N(b), N(a)], ctx=ast.Load()), ctx=ast.Load())], keywords=[]))
                            if [norm(x) for x in cell.slice.elts] == [ov, iv] and norm(sval) == want_len:
                                good = True
        if good:
            return self.ok(t, "cells: frame-major / camera-minor, counts from grid[camera][frame]")
        self.bad(t, "cell order or count-grid indexing differs from the layout (grid is [camera][frame], cells are frame-major)")

    def match_alt(self, r, terms, i):
        from .rules.c01 import eval_cond, enum_of_unit

        t = terms[i] if i < len(terms) else None
        alts = r[1]
        k = enum_of_unit(self.cd.prog, self.u)
        if isinstance(t, Alt) and k is not None and any(eval_cond(t.cond, m, k.name) is not None for ms in alts for m in ms):
            used = False
            dom = self.un.format_domain()[1]
            for members, rterms in alts.items():
                # formats the code refuses altogether cannot select a branch: only the accepted ones are asked
                eff = [m for m in members if dom is None or m in dom] or list(members)
                sel = {eval_cond(t.cond, m, k.name) for m in eff}
                if len(sel) != 1 or None in sel:
                    self.bad(t, f"formats {members} do not select one branch of `{norm(t.cond)}`")
                    continue
                branch = t.then if sel.pop() else t.orelse
                sub = self.spawn()
                sub.count_val = self.count_val
                sub.un.wvars = self.un.wvars
                sub._seg = getattr(self, "_seg", None)
                sub.match(rterms, branch)
                self.nmatched += sub.nmatched
                used = True
            return i + 1
        # polymorphic code (no branch): every alternative with content must match the same code term
        nonempty = [(m, rt) for m, rt in alts.items() if rt]
        if t is None:
            self.emit(False, None, "format alternatives have no counterpart in the code")
            return i
        if all(len(rt) == 1 for m, rt in nonempty):
            for members, rt in nonempty:
                sub = self.spawn(lambda ok, node, text, members=members: self.emit(ok, node, f"[{'/'.join(members)}] {text}"))
                sub.count_val = self.count_val
                sub.un.wvars = self.un.wvars
                sub.match(rt, [t])
                self.nmatched += sub.nmatched
            return i + 1
        self.bad(t, "format-dependent section of the layout is not branched on in the code")
        return i + 1

    def note_attr(self, refname, value, t):
        v = value
        if isinstance(v, ast.Attribute) and v.attr == "value":
            v = v.value
        if isinstance(v, ast.Attribute) and norm(v.value) == "self":
            self.attr_at.append((refname, v.attr, t))

    def reader_attr_of(self, ph):
        """attribute of the decoded object that receives exactly placeholder `ph` (constructor parameter or install)."""
        from .layout import Construct, Install, walk_terms
        from . import facts
        for t in walk_terms(self.u.rterms):
            if isinstance(t, Install) and norm(t.value) == ph:
                return t.attr
            if isinstance(t, Construct):
                summ = facts.init_summary(self.cd.prog, t.cls)
                amap = dict(zip(summ.params, t.args))
                amap.update(t.kwargs)
                for p, a in amap.items():
                    a0 = a
                    # Enum(ph) / ph + c wrappers
                    if ph in {n.id for n in ast.walk(a0) if isinstance(n, ast.Name)} and len([n for n in ast.walk(a0) if isinstance(n, ast.Name) and n.id.startswith("_R")]) == 1:
                        for attr, v in summ.attrs.items():
                            if isinstance(v, ast.Name) and v.id == p:
                                return attr
        return None

    def reader_swapped(self):
        out = []
        if self.side != "r":
            return out
        pairs = []
        for name, ph in self.count_val.items():
            if isinstance(ph, str):
                a = self.reader_attr_of(ph)
                if a:
                    pairs.append((name, a))
        for name, ph in getattr(self, "ph_at", []):
            a = self.reader_attr_of(ph)
            if a:
                pairs.append((name, a))
        names = {nname(n) for n in self.ref_names}
        attrs_present = {nname(a) for _, a in pairs}
        for refname, attr in pairs:
            if nname(attr) != nname(refname) and nname(attr) in names and nname(refname) in attrs_present:
                out.append((refname, attr))
        return out

    def swapped(self):
        """A writer attribute whose name is the name of ANOTHER field of this record (swap on both sides)."""
        out = []
        names = {nname(n): n for n in self.ref_names}
        for refname, attr, t in self.attr_at:
            a = nname(attr)
            if a != nname(refname) and a in names and nname(refname) in {nname(x[1]) for x in self.attr_at}:
                out.append((refname, attr, t))
        return out


def _node(t):
    if t is None:
        return None
    return getattr(t, "stmt", None) or getattr(t, "node", None)
