"""Unification of a writer layout term with a reader layout term (C01 codec-symmetry) and the
symbolic round-trip: writer values are substituted into the reader's dataflow and every attribute
the writer reads must be reconstructed as itself."""
from __future__ import annotations

import ast
import copy

from . import facts
from .index import ClassInfo, Program
from .layout import (Alloc, Alt, Bind, CallOn, Construct, Date, Fail, Field, Fill, Install, Interp, Raw, Rep, Ret,
                     Store, Str, Sub, Term, Unit, has_stream, interpret_unit, show, walk_terms)
from .poly import Poly
from .report import AnalysisError, norm
from .sym import C, N, Ctx, apply_equiv, canon, equal, names_in, simplify, subst, to_poly


class GuardFail(Term):
    def __init__(self, cond, node, exc=""):
        self.cond = cond
        self.node = node
        self.exc = exc


def negate(c):
    if isinstance(c, ast.UnaryOp) and isinstance(c.op, ast.Not):
        return c.operand
    if isinstance(c, ast.Compare) and len(c.ops) == 1:
        flip = {ast.Eq: ast.NotEq, ast.NotEq: ast.Eq, ast.In: ast.NotIn, ast.NotIn: ast.In, ast.Is: ast.IsNot,
                ast.IsNot: ast.Is, ast.Lt: ast.GtE, ast.GtE: ast.Lt, ast.Gt: ast.LtE, ast.LtE: ast.Gt}
        return ast.Compare(left=c.left, ops=[flip[type(c.ops[0])]()], comparators=c.comparators)
    return ast.UnaryOp(op=ast.Not(), operand=c)


def only_fail(terms):
    return bool(terms) and not any(has_stream(t) for t in terms) and any(isinstance(t, Fail) for t in terms)


def _ends_ret(terms):
    return bool(terms) and isinstance(terms[-1], Ret)


def normalise(terms, side):
    out = []
    for i_, t in enumerate(terms):
        if isinstance(t, Alt):
            then, orelse = normalise(t.then, side), normalise(t.orelse, side)
            if _ends_ret(then) != _ends_ret(orelse) and not only_fail(then) and not only_fail(orelse):
                # one arm leaves the codec method early: everything after the `if` belongs to the other arm only
                rest = normalise(terms[i_ + 1:], side)
                if any(has_stream(x) for x in rest):
                    early = "then" if _ends_ret(then) else "orelse"
                    a = Alt(node=t.node, cond=t.cond, then=then if early == "then" else then + rest, orelse=orelse + rest if early == "then" else orelse)
                    a.early = early
                    out.append(a)
                    return out
            if only_fail(then):
                exc = next((x.exc for x in then if isinstance(x, Fail)), "")
                out.append(GuardFail(t.cond, t.node, exc))
                out.extend(orelse)
                continue
            if only_fail(orelse):
                exc = next((x.exc for x in orelse if isinstance(x, Fail)), "")
                out.append(GuardFail(negate(t.cond), t.node, exc))
                out.extend(then)
                continue
            out.append(Alt(node=t.node, cond=t.cond, then=then, orelse=orelse))
            continue
        if isinstance(t, Rep):
            body = normalise(t.body, side)
            sb = [x for x in body if has_stream(x)]
            others = [x for x in body if not has_stream(x) and not isinstance(x, Bind)]
            if side == "r" and t.kind == "range" and len(sb) == 1 and isinstance(sb[0], Field) and sb[0].count is None \
                    and not others and t.listph and t.elem is not None and norm(t.elem) == sb[0].ph and norm(t.lo) == "0":
                f = sb[0]
                out.append(Field(node=t.node, codec=f.codec, dt=f.dt, role=f.role, count=t.hi, ph=t.listph, used=True))
                continue
            if side == "w" and t.kind == "coll" and len(sb) == 1 and isinstance(sb[0], Field) and not others \
                    and len(t.vars) == 1 and sb[0].value is not None and norm(sb[0].value) == t.vars[0]:
                f = sb[0]
                out.append(Field(node=t.node, codec=f.codec, dt=f.dt, role=f.role, value=t.over))
                continue
            r = copy.copy(t)
            r.body = body
            out.append(r)
            continue
        out.append(t)
    return out


def kclass(k):
    return "int" if k in ("i", "u") else "float"


class Unifier:
    def __init__(self, prog: Program, unit: Unit, units: dict, emit, equivs=None, assume=None, note=None):
        self.prog = prog
        self.u = unit
        self.units = units  # class name -> Unit
        self.emit = emit  # emit(ok, subrule, node_w, node_r, text)
        self.assume = assume or (lambda s: None)
        self.note = note or (lambda s: None)
        self.ctx = Ctx(prog, unit.writer.module, unit.cls)
        if equivs:
            self.ctx.equiv.update(equivs)
        self.bind = {}  # placeholder -> writer expr
        self.varenv = {}  # reader local var -> writer expr
        self.param_bind = {}  # reader _build parameter -> writer expr
        self.tables = {}  # table placeholder -> (S expr, svar, [value exprs])
        self.stores = {}  # buffer -> [(index ast, writer value ast, node)]
        self.allocs = {}  # buffer -> Alloc
        self.walloc = {a.name: a for a in walk_terms(unit.wterms) if isinstance(a, Alloc)}
        self.wgrid = {}  # writer grid name -> [(index ast, value ast, cond ast|None)]
        self.effects = []  # (term, varenv snapshot)
        self.ph_class = dict(unit.rinterp.ph_class)
        self.wvars = {}  # writer bound loop var -> Rep
        self.pending = []  # deferred equalities (lhs ast, rhs ast, what, wnode, rnode)
        self.sub_args = []  # (Sub reader term, rsub'd args)
        self.kinds = facts.attr_kinds(prog, unit.cls) if unit.cls else {}
        self.known_true = []  # canon strings of conditions known true in the current branch
        self.fields = 0
        self.reader_params = [p for p in unit.reader.params if p != unit.rstream] if unit.reader else []
        self.writer_params = [p for p in unit.writer.params if p != unit.wstream] if unit.writer else []
        if unit.reader.kind in ("method",):
            self.reader_params = []
        for p in self.reader_params:
            if p in self.writer_params:
                self.param_bind[p] = N(p)
            elif p == "format":
                self.param_bind[p] = ast.Attribute(value=ast.Attribute(value=N("self"), attr="format", ctx=ast.Load()), attr="value", ctx=ast.Load())
        self._collect_wgrid(unit.wterms, None)

    # ------------------------------------------------------------------ substitution into reader exprs
    def rsub(self, node):
        if node is None:
            return None
        env = {}
        env.update(self.param_bind)
        env.update(self.varenv)
        env.update(self.bind)
        n = node
        for _ in range(6):
            before = norm(n)
            n = subst(n, env)
            n = self._rewrite(n)
            n = simplify(n, self.ctx)
            if norm(n) == before:
                break
        return n

    def _rewrite(self, node):
        u = self

        class R(ast.NodeTransformer):
            def visit_IfExp(self, n):
                self.generic_visit(n)
                t = n.test
                body, orelse = n.body, n.orelse
                # a negated test selects the other branch
                while isinstance(t, ast.UnaryOp) and isinstance(t.op, ast.Not):
                    t, body, orelse = t.operand, orelse, body
                if t is not n.test:
                    n = ast.copy_location(ast.IfExp(test=t, body=body, orelse=orelse), n)
                # isinstance(<placeholder of known class>, K)
                if isinstance(t, ast.Call) and norm(t.func) == "isinstance" and len(t.args) == 2:
                    cls = u.class_of(t.args[0])
                    if cls is not None and isinstance(t.args[1], ast.Name):
                        return n.body if cls.name == t.args[1].id else n.orelse
                    # an instance of a package class is not an ndarray / list / tuple
                    if cls is not None and norm(t.args[1]) in ("np.ndarray", "numpy.ndarray", "list", "tuple", "(list, tuple)", "(np.ndarray, list, tuple)"):
                        return n.orelse
                # isinstance(x, K) and <more>  with x known not to be a K: the conjunction is false
                if isinstance(t, ast.BoolOp) and isinstance(t.op, ast.And):
                    for v in t.values:
                        if isinstance(v, ast.Call) and norm(v.func) == "isinstance" and len(v.args) == 2:
                            cls = u.class_of(v.args[0])
                            if cls is not None and ((isinstance(v.args[1], ast.Name) and cls.name != v.args[1].id and v.args[1].id[:1].isupper())
                                                    or norm(v.args[1]) in ("np.ndarray", "numpy.ndarray", "list", "tuple")):
                                return n.orelse
                if norm(n.body) == norm(n.orelse):
                    return n.body
                # `<decoded value> is not None` : values produced by the decoder / held by the writer are not None
                if isinstance(t, ast.Compare) and len(t.ops) == 1 and isinstance(t.ops[0], (ast.Is, ast.IsNot)) and norm(t.comparators[0]) == "None":
                    lhs = norm(t.left)
                    import re as _re
                    if _re.fullmatch(r"self\.\w+", lhs) or _re.fullmatch(r"_R\d+_", lhs) or lhs.startswith("__list__("):
                        return n.body if isinstance(t.ops[0], ast.IsNot) else n.orelse
                ct = canon(t, u.ctx)
                if ct in u.known_true:
                    return n.body
                return n

            def visit_Subscript(self, n):
                self.generic_visit(n)
                # {field: expr}["field"]  (decoded structured buffer component)
                if isinstance(n.value, ast.Dict) and isinstance(n.slice, ast.Constant):
                    for k, v in zip(n.value.keys, n.value.values):
                        if isinstance(k, ast.Constant) and k.value == n.slice.value:
                            return v
                # G.flatten().reshape([a,b])[i,j]  -> grid lookup
                g = u.grid_lookup(n)
                if g is not None:
                    return g
                return n

        return R().visit(copy.deepcopy(node))

    def class_of(self, node):
        if isinstance(node, ast.Name) and node.id in self.ph_class:
            return self.ph_class[node.id]
        s = norm(node)
        for ph, w in self.bind.items():
            if ph in self.ph_class and norm(w) == s:
                return self.ph_class[ph]
        return None

    # ------------------------------------------------------------------ writer grid (count-grid idiom)
    def _collect_wgrid(self, terms, cond):
        for t in terms:
            if isinstance(t, Store) and t.name in self.walloc:
                self.wgrid.setdefault(t.name, []).append((t.index, t.value, cond))
            elif isinstance(t, Rep):
                self._collect_wgrid(t.body, cond)
            elif isinstance(t, Alt):
                self._collect_wgrid(t.then, t.cond)
                self._collect_wgrid(t.orelse, negate(t.cond))

    def grid_shape(self, name):
        a = self.walloc.get(name)
        if a is None or a.length is None:
            return None
        if isinstance(a.length, (ast.Tuple, ast.List)):
            return list(a.length.elts)
        return [a.length]

    def grid_lookup(self, n: ast.Subscript):
        v = n.value
        shape_arg = None
        if isinstance(v, ast.Call) and isinstance(v.func, ast.Attribute) and v.func.attr == "reshape" and v.args:
            shape_arg = v.args[0] if len(v.args) == 1 else ast.Tuple(elts=list(v.args), ctx=ast.Load())
            v = v.func.value
        if isinstance(v, ast.Call) and isinstance(v.func, ast.Attribute) and v.func.attr in ("flatten", "ravel") and not v.args:
            v = v.func.value
        else:
            if shape_arg is None:
                return None
        if not (isinstance(v, ast.Name) and v.id in self.wgrid):
            return None
        gshape = self.grid_shape(v.id)
        if shape_arg is not None:
            if not isinstance(shape_arg, (ast.List, ast.Tuple)) or gshape is None or len(shape_arg.elts) != len(gshape):
                return None
            for a, b in zip(shape_arg.elts, gshape):
                if not equal(a, b, self.ctx):
                    return None  # reshape order differs from the writer's grid: stays opaque -> mismatch later
        idx = n.slice.elts if isinstance(n.slice, ast.Tuple) else [n.slice]
        stores = self.wgrid[v.id]
        if len(stores) != 1:
            return None
        sidx, sval, scond = stores[0]
        sidx = sidx.elts if isinstance(sidx, ast.Tuple) else [sidx]
        if len(sidx) != len(idx) or not all(isinstance(x, ast.Name) for x in sidx):
            return None
        ren = {a.id: b for a, b in zip(sidx, idx)}
        val = subst(sval, ren)
        if scond is not None:
            a = self.walloc[v.id]
            default = C(0) if a.func.startswith("np.zeros") else None
            if default is None:
                return None
            return ast.IfExp(test=subst(scond, ren), body=val, orelse=default)
        return val

    # ------------------------------------------------------------------ value shapes (writer side)
    def witems(self, f: Field):
        """(items Poly, scalars_per_item, note) for a writer data field."""
        v = f.value
        dt = f.dt
        k = self.value_kind(v, f)
        nsc = dt.nscalars if dt.kind != "V" else len(dt.scalars())
        if k[0] == "scalar":
            return Poly.const(1), 1
        if k[0] == "fixed":
            return Poly.const(1), nsc
        if k[0] == "seq":
            p = to_poly(k[1], self.ctx)
            if nsc == 1:
                return p, 1
            return p, nsc
        if k[0] == "rows":
            return to_poly(k[1], self.ctx), nsc
        if k[0] == "grid":
            return to_poly(k[1], self.ctx), 1
        raise AnalysisError(f"{self.u.name}: cannot size written value `{norm(v)}`")

    def is_scalar_expr(self, v):
        if isinstance(v, ast.Constant) and isinstance(v.value, (int, float)):
            return True
        if isinstance(v, (ast.BinOp, ast.UnaryOp)):
            return True
        if isinstance(v, ast.Call) and norm(v.func) in ("len", "int", "float", "round", "abs"):
            return True
        if isinstance(v, ast.Attribute) and v.attr in ("value", "start", "stop", "size", "nBytes"):
            return not is_self(v.value) or v.attr == "value"
        if isinstance(v, ast.IfExp):
            return self.is_scalar_expr(v.body) and self.is_scalar_expr(v.orelse)
        if isinstance(v, ast.Call) and norm(v.func) in ("datetime.now",):
            return True
        return False

    def value_kind(self, v, f: Field):
        dt = f.dt
        shaped = dt.kind == "V" or dt.nscalars > 1
        if self.is_scalar_expr(v):
            return ("scalar",)
        if isinstance(v, ast.Name):
            r = self.wvars.get(v.id)
            if r is not None:
                if r.kind == "range":
                    return ("scalar",)
                if r.kind == "coll":
                    return ("fixed",) if shaped else ("scalar",)
            if v.id in self.writer_params:
                return ("fixed",) if shaped else ("scalar",)
            import builtins as _b
            mod_names = {n.id for st_ in self.u.writer.module.tree.body if not isinstance(st_, (ast.FunctionDef, ast.ClassDef)) for n in ast.walk(st_)
                         if isinstance(n, ast.Name) and isinstance(n.ctx, ast.Store)} | \
                {n.id for n in ast.walk(self.u.writer.node) if isinstance(n, ast.Name) and isinstance(n.ctx, ast.Store)} | \
                {a.asname or a.name.split(".")[0] for n in ast.walk(self.u.writer.module.tree) if isinstance(n, (ast.Import, ast.ImportFrom)) for a in n.names} | \
                {n.name for n in self.u.writer.module.tree.body if isinstance(n, (ast.FunctionDef, ast.ClassDef))} | \
                {a.arg for n in ast.walk(self.u.writer.node) if isinstance(n, ast.arguments) for a in n.args + n.kwonlyargs}
            if v.id not in mod_names and not hasattr(_b, v.id):
                from .report import DefiniteViolation
                raise DefiniteViolation("codec-call-shape", self.u.writer.module.path.name, self.u.writer.qualname, v,
                                        f"the encoder writes `{v.id}`, a name that nothing in {self.u.writer.qualname} or its module binds: encoding raises NameError",
                                        construct=f"{self.u.writer.qualname} unbound name {v.id}", props=("C01", "C02", "C06"))
            raise AnalysisError(f"{self.u.name}: free name `{v.id}` written to the stream")
        if isinstance(v, ast.IfExp):
            if isinstance(v.orelse, (ast.List, ast.Tuple)) and not v.orelse.elts:
                return ("seq", ast.Call(func=N("len"), args=[v], keywords=[]))
            a, b = self.value_kind(v.body, f), self.value_kind(v.orelse, f)
            if a == b:
                return a
        if is_self(v) and isinstance(v, ast.Attribute):
            info = self.kinds.get(v.attr)
            kind = info["kind"] if info else None
            if kind is None:
                # attribute not set in __init__ (e.g. installed by the decoder only)
                kind = "seq" if not shaped or dt.kind == "V" else "fixed"
            if kind == "seq":
                return ("seq", ast.Call(func=N("len"), args=[v], keywords=[]))
            if kind == "fixed":
                if info is not None and info["shape"] is not None and tuple(info["shape"]) != tuple(dt.shape):
                    return ("seq", C(_prod(info["shape"]) // max(1, dt.nscalars)) if _prod(info["shape"]) % max(1, dt.nscalars) == 0 else C(-1))
                return ("fixed",)
            if kind == "frames":
                return ("rows", ast.Subscript(value=ast.Attribute(value=v, attr="shape", ctx=ast.Load()), slice=C(0), ctx=ast.Load()))
            if shaped:
                self.assume(f"{self.u.name}.{v.attr} has the shape {tuple(dt.shape) or dt.describe()} of the codec {f.codec} it is written with (no constructor guard)")
                return ("fixed",)
            return ("scalar",)
        if isinstance(v, ast.Attribute):
            # attribute of a loop element / parameter
            return ("fixed",) if shaped else ("scalar",)
        if isinstance(v, ast.Subscript):
            idx = v.slice
            if isinstance(idx, ast.Name) and idx.id in self.wvars and self.wvars[idx.id].kind == "coll":
                s = idx
                n = ast.BinOp(left=ast.Attribute(value=s, attr="stop", ctx=ast.Load()), op=ast.Sub(),
                              right=ast.Attribute(value=s, attr="start", ctx=ast.Load()))
                return ("rows", n)
            if isinstance(idx, ast.Slice) and idx.lower is not None and idx.upper is not None and idx.step is None:
                return ("rows", ast.BinOp(left=idx.upper, op=ast.Sub(), right=idx.lower))
            if isinstance(idx, ast.Tuple):
                return ("seq", ast.Call(func=N("len"), args=[v], keywords=[]))
            return ("fixed",) if shaped else ("scalar",)
        if isinstance(v, ast.Call) and isinstance(v.func, ast.Attribute):
            if v.func.attr in ("flatten", "ravel") and isinstance(v.func.value, ast.Name) and v.func.value.id in self.walloc:
                shp = self.grid_shape(v.func.value.id)
                n = C(1)
                for s in shp:
                    n = ast.BinOp(left=n, op=ast.Mult(), right=s)
                return ("grid", n)
            if is_self(v.func.value):
                inl = self.inline_helper(v)
                if inl is not None:
                    return inl
            if norm(v.func) in ("np.rec.fromarrays", "numpy.rec.fromarrays"):
                inl = self.packed_rows(v, v)
                if inl is not None:
                    return inl
        if isinstance(v, ast.Call) and not shaped and not is_self(v.func):
            # a call that does not involve the block (clock, random, builtin): one scalar; the determinism rule judges it
            return ("scalar",)
        # a data field written as the sum / difference of two stored attributes: the on-disk value is then neither attribute's value.
        # The reference layout gives every field ONE meaning (BTS software reads the viewport's second pair as its size); a writer that
        # stores a derived quantity - however consistently its own reader inverts it - writes other numbers than the object holds
        ops = None
        if isinstance(v, ast.BinOp) and isinstance(v.op, (ast.Add, ast.Sub)):
            ops = (v.left, v.right)
        elif isinstance(v, ast.Call) and norm(v.func) in ("np.add", "np.subtract", "numpy.add", "numpy.subtract") and len(v.args) == 2 and not v.keywords:
            ops = tuple(v.args)
        if ops and all(is_self(o) and isinstance(o, ast.Attribute) for o in ops) and norm(ops[0]) != norm(ops[1]):
            from .report import DefiniteViolation
            raise DefiniteViolation("layout-conformance", self.u.writer.module.path.name, self.u.writer.qualname, v,
                                    f"the field is written as `{norm(v)}`, a combination of two stored attributes: the bytes on disk hold neither `{norm(ops[0])}` nor `{norm(ops[1])}` "
                                    "but a derived quantity, which software that follows the layout reads as the field's own value",
                                    construct=f"{self.u.writer.qualname} writes {norm(v)}", props=("C06",))
        raise AnalysisError(f"{self.u.name}: cannot classify written value `{norm(v)}` (codec {f.codec})")

    def inline_helper(self, call):
        """self._helper(args) returning np.rec.fromarrays([self.A[a:b], ...], dtype=T.btype): inlining bound 1."""
        m = self.u.cls.get(call.func.attr) if self.u.cls else None
        if m is None or m.kind != "method":
            return None
        env = {p: a for p, a in zip(m.params, call.args)}
        ret = None
        for st in m.node.body:
            if isinstance(st, ast.Assign) and len(st.targets) == 1:
                t, val = st.targets[0], subst(st.value, env)
                if isinstance(t, ast.Name):
                    env[t.id] = val
                elif isinstance(t, ast.Tuple) and isinstance(val, ast.Tuple) and len(t.elts) == len(val.elts):
                    for a, b in zip(t.elts, val.elts):
                        if isinstance(a, ast.Name):
                            env[a.id] = b
            elif isinstance(st, ast.Return):
                ret = subst(st.value, env)
        if ret is None:
            return None
        ret = simplify(ret, self.ctx)
        return self.packed_rows(ret, call)

    def packed_any(self, val):
        """packed rows from a helper call on self or from np.rec.fromarrays written in place"""
        if norm(val.func) in ("np.rec.fromarrays", "numpy.rec.fromarrays"):
            return self.packed_rows(val, val)
        return self.inline_helper(val)

    def packed_rows(self, ret, call):
        """np.rec.fromarrays([self.A[a:b], ...], dtype=T.btype): rows = b - a, components = the sliced attributes"""
        if isinstance(ret, ast.Call) and norm(ret.func) in ("np.rec.fromarrays", "numpy.rec.fromarrays") and ret.args and isinstance(ret.args[0], (ast.List, ast.Tuple)):
            arrs = ret.args[0].elts
            rows = None
            norm_arrs = []
            for a in arrs:
                # X[seg] with seg a run (slice object) is X[seg.start:seg.stop]
                if isinstance(a, ast.Subscript) and isinstance(a.slice, ast.Name):
                    sl = ast.Slice(lower=ast.Attribute(value=a.slice, attr="start", ctx=ast.Load()), upper=ast.Attribute(value=a.slice, attr="stop", ctx=ast.Load()), step=None)
                    a = ast.copy_location(ast.Subscript(value=a.value, slice=sl, ctx=ast.Load()), a)
                norm_arrs.append(a)
            arrs = norm_arrs
            for a in arrs:
                if not (isinstance(a, ast.Subscript) and isinstance(a.slice, ast.Slice) and a.slice.lower is not None and a.slice.upper is not None):
                    return None
                r = ast.BinOp(left=a.slice.upper, op=ast.Sub(), right=a.slice.lower)
                if rows is not None and not equal(rows, r, self.ctx):
                    self.pack_mismatch = getattr(self, "pack_mismatch", {})
                    self.pack_mismatch[norm(call)] = f"component `{norm(a)}` covers {canon(r, self.ctx)} rows, the first component {canon(rows, self.ctx)}"
                    continue
                rows = rows if rows is not None else r
            self._last_pack = arrs
            return ("rows", rows, arrs)
        return None

    # ------------------------------------------------------------------ reporting helpers
    def ok(self, sub, w, r, text=""):
        self.emit(True, sub, _n(w), _n(r), text)

    def bad(self, sub, w, r, text):
        self.emit(False, sub, _n(w), _n(r), text)

    # ------------------------------------------------------------------ main
    def run(self):
        W = normalise(self.u.wterms, "w")
        R = normalise(self.u.rterms, "r")
        self.W, self.R = W, R
        self.seq(W, R)
        for lhs, rhs, what, w, r in self.pending:
            a = self.rsub(lhs)
            if equal(a, rhs, self.ctx):
                self.ok("count", w, r, f"{what}: {canon(a, self.ctx)}")
            else:
                self.bad("count", w, r, f"{what}: reader uses `{canon(a, self.ctx)}`, writer `{canon(rhs, self.ctx)}`")
        return self

    def stream_items(self, terms):
        return [t for t in terms if has_stream(t)]

    def seq(self, W, R):
        W = list(W)
        R = list(R)
        wi = 0

        def next_w():
            nonlocal wi
            while wi < len(W):
                t = W[wi]
                wi += 1
                if has_stream(t):
                    return t
                self.weffect(t)
            return None

        ri = 0
        while ri < len(R):
            r = R[ri]
            ri += 1
            if not has_stream(r):
                self.reffect(r)
                continue
            if isinstance(r, Alt) and getattr(r, "early", None):
                # the reader leaves early on one arm: each arm, on its own, must consume what the writer still emits
                self.fork_early(W[wi:], r, "r")
                wi = len(W)
                continue
            # peek writer
            save = wi
            w = next_w()
            if isinstance(w, Alt) and getattr(w, "early", None):
                self.fork_early(R[ri - 1:], w, "w")
                ri = len(R)
                continue
            if w is None:
                self.bad("order", None, r, f"reader consumes `{show([r])[0].strip()}` but the writer has nothing left to write")
                continue
            # inline a reader Sub against inline writer fields (file header: entries written inline)
            if isinstance(r, Sub) and not isinstance(w, Sub) and r.cls is not None and r.cls.name in self.units:
                inner = self.units[r.cls.name]
                interp = Interp(self.prog, inner.reader, inner.rstream or inner.reader.params[0], "r")
                terms = normalise(interp.run(), "r")
                self.ph_class.update(interp.ph_class)
                ret = next((t for t in terms if isinstance(t, Ret)), None)
                if ret is not None and r.ph:
                    self.varenv[r.ph] = ret.value
                R[ri:ri] = [t for t in terms if not isinstance(t, Ret)]
                wi = save
                continue
            if isinstance(w, Sub) and not isinstance(r, Sub) and w.cls is None:
                self.bad("order", w, r, "writer delegates to a sub-codec where the reader reads inline fields")
                continue
            self.term(w, r)
        while True:
            w = next_w()
            if w is None:
                break
            self.bad("order", w, None, f"writer emits `{show([w])[0].strip()}` that the reader never consumes")

    def weffect(self, t):
        pass

    # ------------------------------------------------------------------ early exits of a codec method
    def zeros_of(self, cond):
        """canonical texts of the expressions a condition (over writer-side values) forces to zero / empty"""
        z = set()
        c = cond
        if isinstance(c, ast.UnaryOp) and isinstance(c.op, ast.Not):
            z.add(canon(c.operand, self.ctx))
            z.add(canon(ast.Call(func=N("len"), args=[c.operand], keywords=[]), self.ctx))
        if isinstance(c, ast.Compare) and len(c.ops) == 1:
            a, op, b = c.left, c.ops[0], c.comparators[0]
            for x, y, o in ((a, b, op), (b, a, {ast.Lt: ast.Gt, ast.Gt: ast.Lt, ast.LtE: ast.GtE, ast.GtE: ast.LtE}.get(type(op), type(op))())):
                if isinstance(y, ast.Constant) and isinstance(y.value, int) and not isinstance(y.value, bool) \
                        and ((isinstance(o, ast.Eq) and y.value == 0) or (isinstance(o, ast.LtE) and y.value == 0) or (isinstance(o, ast.Lt) and y.value == 1)):
                    z.add(canon(x, self.ctx))
                    if isinstance(x, ast.Call) and norm(x.func) == "len" and len(x.args) == 1:
                        z.add(canon(x.args[0], self.ctx))
                        x = x.args[0]
                    # an empty decoded table is an empty collection of runs: the table of E has one row per element of E
                    if isinstance(x, ast.Attribute) and x.attr == "size":
                        x = x.value
                        z.add(canon(x, self.ctx))
                    if isinstance(x, ast.Call) and norm(x.func) == "__table__" and len(x.args) == 1:
                        z.add(canon(x.args[0], self.ctx))
                        z.add(canon(ast.Call(func=N("len"), args=[x.args[0]], keywords=[]), self.ctx))
        return z

    def empty_under(self, t, zeros, side):
        """the term transfers no bytes when the expressions in `zeros` are zero / empty"""
        if not zeros:
            return False
        sub = (lambda e: self.rsub(e)) if side == "r" else (lambda e: e)
        cz = lambda e: e is not None and canon(sub(e), self.ctx) in zeros

        if isinstance(t, Rep):
            if t.kind == "range":
                return cz(t.hi) and norm(t.lo) == "0"
            over = getattr(t, "over", None)
            return over is not None and (cz(over) or cz(ast.Call(func=N("len"), args=[over], keywords=[])))
        if isinstance(t, Field) and t.count is not None:
            return cz(t.count)
        return False

    def fork_early(self, others, a: Alt, side):
        """`a` (on `side`) ends its method on one arm; `others` is what the other side still has to transfer.  Each arm is
        compared with it separately under the arm's condition; the arm that leaves early goes first so that the bindings and the
        decoded object of the main path are the ones that remain."""
        cond = self.rsub(a.cond) if side == "r" else a.cond
        arms = [(a.then, cond, a.early == "then"), (a.orelse, negate(cond), a.early == "orelse")]
        arms.sort(key=lambda x: not x[2])
        for branch, c, is_early in arms:
            kt = list(self.known_true)
            self.known_true.append(canon(c, self.ctx))
            zeros = self.zeros_of(c)
            mine = [t for t in branch if not (has_stream(t) and self.empty_under(t, zeros, side))]
            theirs = [t for t in others if not (has_stream(t) and self.empty_under(t, zeros, "w" if side == "r" else "r"))]
            n_eff = len(self.effects)
            if side == "r":
                self.seq(theirs, mine)
            else:
                self.seq(mine, theirs)
            if is_early:
                del self.effects[n_eff:]
            self.known_true = kt
        self.ok("format", a if side == "w" else None, a if side == "r" else None, f"early exit on `{canon(cond, self.ctx)}`: both arms compared with the other side")

    def reffect(self, r):
        if isinstance(r, Alloc):
            self.allocs[r.name] = r
        elif isinstance(r, Store):
            self.record_store(r)
        elif isinstance(r, (Construct, Install, CallOn, Ret, Fill)):
            self.effects.append((r, dict(self.varenv)))
        elif isinstance(r, Rep):
            # stream-free loop on the reader side (no codec content)
            for t in r.body:
                self.reffect(t)
        elif isinstance(r, Alt):
            for t in r.then + r.orelse:
                self.reffect(t)

    def record_store(self, st: Store):
        idx = self.rsub(st.index)
        val = self.rsub(st.value)
        self.stores.setdefault(st.name, []).append((idx, val, getattr(st, "stmt", None) or st.node, self._store_target(idx, val)))
        self._buffer_map(st.name)

    def _buffer_map(self, name):
        """If every store into buffer `name` pairs index-for-index with one writer array, map it."""
        targets = set()
        for idx, val, node, t in self.stores.get(name, []):
            if t is None:
                self.varenv.pop(name, None)
                return
            targets.add(norm(t))
            last = t
        if len(targets) == 1:
            self.varenv[name] = last

    def _store_target(self, idx, val):
        # packed rows written by a helper: value is the helper call
        if isinstance(val, ast.Call) and isinstance(val.func, ast.Attribute) and (is_self(val.func.value) or norm(val.func) in ("np.rec.fromarrays", "numpy.rec.fromarrays")):
            k = self.packed_any(val)
            if k and len(k) == 3:
                arrs = k[2]
                sl = arrs[0].slice
                if isinstance(idx, ast.Slice) and equal(idx.lower, sl.lower, self.ctx) and equal(idx.upper, sl.upper, self.ctx):
                    f = getattr(self, "_pack_dt", None)
                    dt = self._pack_codec(val)
                    if dt is not None and len(dt.fields) == len(arrs):
                        return ast.Dict(keys=[C(n) for n, _ in dt.fields], values=[a.value for a in arrs])
            return None
        if not isinstance(val, ast.Subscript):
            return None
        j = val.slice
        if isinstance(j, ast.Name) and j.id in self.wvars and self.wvars[j.id].kind == "coll":
            j = ast.Slice(lower=ast.Attribute(value=j, attr="start", ctx=ast.Load()),
                          upper=ast.Attribute(value=j, attr="stop", ctx=ast.Load()), step=None)
        if isinstance(idx, ast.Slice) and isinstance(j, ast.Slice):
            if idx.step is None and j.step is None and equal(idx.lower, j.lower, self.ctx) and equal(idx.upper, j.upper, self.ctx):
                return val.value
            return None
        if isinstance(idx, ast.Slice) or isinstance(j, ast.Slice):
            return None
        if canon(idx, self.ctx) == canon(j, self.ctx):
            return val.value
        return None

    def _pack_codec(self, val):
        return self._pack_dts.get(norm(val)) if hasattr(self, "_pack_dts") else None

    # ------------------------------------------------------------------ term against term
    def term(self, w, r):
        if isinstance(w, Field) and isinstance(r, Field):
            return self.field(w, r)
        if isinstance(w, Rep) and isinstance(r, Field):
            return self.table(w, r)
        if isinstance(w, Rep) and isinstance(r, Rep):
            return self.rep(w, r)
        if isinstance(w, Alt) and isinstance(r, Alt):
            return self.alt(w, r)
        if isinstance(r, Alt) and not isinstance(w, Alt):
            return self.poly_writer(w, r)
        if isinstance(w, Sub) and isinstance(r, Sub):
            return self.sub(w, r)
        if isinstance(w, Str) and isinstance(r, Str):
            self.fields += 1
            if equal(w.width, self.rsub(r.width), self.ctx):
                self.ok("width", w, r, f"Str[{norm(w.width)}]")
            else:
                self.bad("width", w, r, f"string field width differs: writer {norm(w.width)}, reader {norm(r.width)}")
            if r.ph:
                self.bind[r.ph] = w.value
            if not r.used and not (isinstance(w.value, ast.Constant) and w.value.value == ""):
                self.bad("attr", w, r, f"writer stores `{norm(w.value)}` in a string field the reader discards")
            return
        if isinstance(w, Date) and isinstance(r, Date):
            self.fields += 1
            self.ok("width", w, r, "Date")
            if r.ph:
                self.bind[r.ph] = w.value
            return
        if isinstance(w, Raw) and isinstance(r, Raw):
            self.fields += 1
            a, b = w.nbytes, self.rsub(r.nbytes) if r.nbytes is not None else None
            if b is not None and equal(a, b, self.ctx):
                self.ok("width", w, r, f"Raw[{canon(a, self.ctx)}]")
            else:
                self.bad("width", w, r, f"raw byte run differs: writer {norm(a)}, reader {norm(b)}")
            if r.ph:
                self.bind[r.ph] = w.value
            return
        # padding written with a string / raw zeros vs skip, and vice versa
        wb, rb = self.fixed_bytes(w), self.fixed_bytes(r)
        if wb is not None and rb is not None and self.is_pad(w) and (self.is_skip(r)):
            self.fields += 1
            if wb == rb:
                self.ok("width", w, r, f"pad {wb} bytes")
            else:
                self.bad("width", w, r, f"padding width differs: writer {wb} bytes, reader skips {rb}")
            return
        self.bad("order", w, r, f"writer term `{show([w])[0].strip()}` does not correspond to reader term `{show([r])[0].strip()}`")

    def is_pad(self, t):
        if isinstance(t, Field):
            return t.role == "pad"
        if isinstance(t, Str):
            return isinstance(t.value, ast.Constant) and t.value.value == ""
        if isinstance(t, Raw):
            return True
        return False

    def is_skip(self, t):
        if isinstance(t, Field):
            return t.role == "skip" or not t.used
        if isinstance(t, (Str, Raw, Date)):
            return not t.used or (isinstance(t, Raw) and t.op == "seek")
        return False

    def fixed_bytes(self, t):
        if isinstance(t, Field):
            n = self.ctx.const_int(self.rsub(t.count)) if t.count is not None else 1
            if n is None:
                return None
            if t.role == "data" and t.value is not None:
                return None
            return n * t.dt.itemsize
        if isinstance(t, Str):
            return self.ctx.const_int(t.width)
        if isinstance(t, Raw):
            return self.ctx.const_int(self.rsub(t.nbytes)) if t.nbytes is not None else None
        if isinstance(t, Date):
            return 4
        return None

    def field(self, w: Field, r: Field):
        self.fields += 1
        ws, rs = w.dt.scalars(), r.dt.scalars()
        wpat = [(kclass(k), s) for k, s in ws]
        rpat = [(kclass(k), s) for k, s in rs]
        # width / kind per scalar
        same = (len(set(wpat)) == 1 and len(set(rpat)) == 1 and wpat[0] == rpat[0]) or wpat == rpat
        # pad/skip: only total bytes matter
        if w.role == "pad" and r.role in ("skip",) or (w.role == "pad" and r.role == "data"):
            wb, rb = self.fixed_bytes(w), self.fixed_bytes(r)
            if r.role == "data":
                rc = self.ctx.const_int(self.rsub(r.count)) if r.count is not None else 1
                rb = None if rc is None else rc * r.dt.itemsize
            if wb is not None and wb == rb:
                self.ok("width", w, r, f"pad {wb} bytes")
            else:
                self.bad("width", w, r, f"padding width differs: writer pads {wb} bytes, reader skips {rb}")
            if r.ph:
                self.bind[r.ph] = C(0)
            return
        if w.role == "data" and r.role == "skip":
            self.bad("attr", w, r, f"writer stores `{norm(w.value)}` where the reader skips: the field is lost on decode")
            return
        if w.role != "data" or r.role != "data":
            self.bad("order", w, r, f"role mismatch writer={w.role} reader={r.role}")
            return
        if not same:
            self.bad("width", w, r, f"on-disk type differs: writer {w.codec.split('.')[-1]}:{w.dt.describe()} vs reader {r.codec.split('.')[-1]}:{r.dt.describe()}")
            return
        if set(k for k, _ in ws) != set(k for k, _ in rs):
            self.note(f"{self.u.name}: signedness differs at `{norm(w.value)}` (writer {w.dt.describe()}, reader {r.dt.describe()}); same bytes, C06 material")
        # total number of scalars
        if w.dt.kind == "V":
            self._pack_dts = getattr(self, "_pack_dts", {})
            self._pack_dts[norm(w.value)] = w.dt
        items, per = self.witems(w)
        pm = getattr(self, "pack_mismatch", {}).get(norm(w.value))
        if pm:
            self.bad("count", w, r, f"packed components of `{norm(w.value)}` do not cover the same rows: {pm}")
        wtotal = items * per
        if r.count is None:
            rtotal = Poly.const(len(rs))
            rc = C(1)
        else:
            rc = r.count
            rtotal = None
        if rtotal is None:
            free = [n for n in names_in(self.rsub(rc)) if n in self.reader_params and n not in self.param_bind]
            if free:
                self.pending.append((ast.BinOp(left=rc, op=ast.Mult(), right=C(len(rs))), _poly_ast(wtotal), "deferred item count", w, r))
            else:
                rp = to_poly(self.rsub(rc), self.ctx)
                rtotal = rp * len(rs)
        if rtotal is not None:
            if apply_equiv(rtotal, self.ctx) == apply_equiv(wtotal, self.ctx):
                self.ok("count", w, r, f"{w.codec.split('.')[-1]} x {wtotal} scalars")
            else:
                def keyed(nd):
                    if nd is None:
                        return None
                    k = copy.copy(nd)
                    k._sa_construct = f"item count of {norm(w.value)}"
                    return k
                self.emit(False, "count", keyed(_n(w)), keyed(_n(r)), f"item count differs: writer emits {wtotal} scalars of `{norm(w.value)}`, reader consumes {rtotal}")
        if r.ph:
            self.bind[r.ph] = w.value
        if not r.used:
            self.bad("attr", w, r, f"writer stores `{norm(w.value)}` but the reader discards the value it reads")

    def table(self, w: Rep, r: Field):
        """writer loop writing k scalars per element  vs  reader structured read of n rows."""
        body = [t for t in w.body if has_stream(t)]
        rs = r.dt.scalars()
        if w.kind != "coll" or not all(isinstance(t, Field) and t.role == "data" for t in body) or len(body) != len(rs) or r.count is None:
            self.bad("order", w, r, "writer loop does not correspond to the reader's structured table read")
            return
        self.fields += len(body)
        for t, (k, s) in zip(body, rs):
            if (kclass(t.dt.kind), t.dt.size) != (kclass(k), s) or t.dt.nscalars != 1:
                self.bad("width", t, r, f"table column type differs: writer {t.dt.describe()} vs reader {k}{s}")
                return
        n = self.rsub(r.count)
        ln = ast.Call(func=N("len"), args=[w.over], keywords=[])
        if equal(n, ln, self.ctx):
            self.ok("count", w, r, f"table rows = {canon(ln, self.ctx)}")
        else:
            self.bad("count", w, r, f"table row count: writer emits {canon(ln, self.ctx)} rows, reader reads {canon(n, self.ctx)}")
        self.tables[r.ph] = (w.over, w.vars[0], [t.value for t in body], [nm for nm, _ in r.dt.fields])
        self.bind[r.ph] = ast.Call(func=N("__table__"), args=[w.over], keywords=[])

    def rep(self, w: Rep, r: Rep):
        saved_wvars = dict(self.wvars)
        saved_env = dict(self.varenv)
        for v in w.vars:
            self.wvars[v] = w
        okk = True
        if r.kind == "rows":
            tb = self.tables.get(norm(r.over))
            if tb is None:
                self.bad("count", w, r, f"reader iterates `{norm(r.over)}` which is not a decoded segment table")
                okk = False
            else:
                S, svar, vals, names = tb
                if w.kind != "coll" or canon(w.over, self.ctx) != canon(S, self.ctx):
                    self.bad("count", w, r, f"data loop iterates `{norm(w.over) if w.over is not None else 'range'}` but the table was written from `{norm(S)}`")
                    okk = False
                else:
                    self.ok("count", w, r, f"data loop and table share `{canon(S, self.ctx)}`")
                    if len(r.vars) == len(vals):
                        for rv, val in zip(r.vars, vals):
                            self.varenv[rv] = subst(val, {svar: N(w.vars[0])})
                    elif len(r.vars) == 1:
                        self.varenv[r.vars[0]] = ast.Tuple(elts=[subst(v, {svar: N(w.vars[0])}) for v in vals], ctx=ast.Load())
        elif w.kind == "coll" and r.kind == "range":
            n = self.rsub(ast.BinOp(left=r.hi, op=ast.Sub(), right=r.lo))
            ln = ast.Call(func=N("len"), args=[w.over], keywords=[])
            if equal(n, ln, self.ctx):
                self.ok("count", w, r, f"loop count = {canon(ln, self.ctx)}")
            else:
                self.bad("count", w, r, f"loop count: writer iterates {canon(ln, self.ctx)} items, reader {canon(n, self.ctx)}")
            for rv in r.vars:
                self.varenv[rv] = N("__i__")
        elif w.kind == "range" and r.kind == "range":
            for what, a, b in (("lower bound", w.lo, r.lo), ("upper bound", w.hi, r.hi)):
                bb = self.rsub(b)
                free = [n for n in names_in(bb) if n in self.reader_params and n not in self.param_bind]
                if free and isinstance(bb, ast.Name):
                    self.param_bind[bb.id] = a
                    self.ok("count", w, r, f"{what}: parameter {bb.id} := {canon(a, self.ctx)}")
                elif equal(a, bb, self.ctx):
                    self.ok("count", w, r, f"{what} {canon(a, self.ctx)}")
                else:
                    self.bad("count", w, r, f"loop {what}: writer {canon(a, self.ctx)}, reader {canon(bb, self.ctx)}")
            if len(w.vars) == len(r.vars):
                for a, b in zip(w.vars, r.vars):
                    self.varenv[b] = N(a)
        elif w.kind == "coll" and r.kind == "coll":
            if canon(w.over, self.ctx) == canon(self.rsub(r.over), self.ctx):
                self.ok("count", w, r, "same collection")
            else:
                self.bad("count", w, r, f"loops iterate different collections: {norm(w.over)} vs {norm(r.over)}")
        else:
            self.bad("order", w, r, f"loop kinds differ: writer {w.kind}, reader {r.kind}")
            okk = False
        if okk:
            self.seq(w.body, r.body)
        if r.listph:
            # list of per-element decodes; if the element is exactly the sub-decode of the writer's element -> the collection
            elem = self.rsub(r.elem) if r.elem is not None else None
            if w.kind == "coll" and elem is not None and len(w.vars) == 1 and norm(elem) == w.vars[0]:
                self.bind[r.listph] = w.over
            elif elem is not None:
                self.bind[r.listph] = ast.Call(func=N("__list__"), args=[elem], keywords=[])
        # adder calls inside the loop body were recorded as effects with the loop's varenv
        self.last_rep = (w, r)
        self.wvars = saved_wvars
        keep = {k: v for k, v in self.varenv.items() if k in self.allocs}
        self.varenv = saved_env
        self.varenv.update(keep)

    def cond_compatible(self, wc, rc):
        a = canon(wc, self.ctx)
        rr = self.rsub(rc)
        b = canon(rr, self.ctx)
        if a == b:
            return True
        # count-grid idiom: reader `n > 0` where n = (len(cell) if <wc> else 0)
        if isinstance(rr, ast.Compare) and len(rr.ops) == 1 and isinstance(rr.ops[0], (ast.Gt, ast.NotEq)) and norm(rr.comparators[0]) == "0":
            x = rr.left
            if isinstance(x, ast.IfExp) and canon(x.test, self.ctx) == a and norm(x.orelse) == "0":
                self.note(f"{self.u.name}: a present-but-empty cell is written as count 0 and decoded as absent (value-level corner, not decided)")
                return True
        return False

    def alt(self, w: Alt, r: Alt):
        if self.cond_compatible(w.cond, r.cond):
            self.ok("format", w, r, f"branch condition {canon(w.cond, self.ctx)}")
            kt = list(self.known_true)
            self.known_true.append(canon(w.cond, self.ctx))
            self.seq(w.then, r.then)
            self.known_true = kt
            self.seq(w.orelse, r.orelse)
        elif self.cond_compatible(negate(w.cond), r.cond):
            self.ok("format", w, r, "branch condition (negated)")
            self.seq(w.orelse, r.then)
            self.seq(w.then, r.orelse)
        else:
            tt = self.format_truth(w.cond, self.rsub(r.cond))
            if tt == "same":
                self.ok("format", w, r, "branch conditions select the same formats among those both sides accept")
                self.seq(w.then, r.then)
                self.seq(w.orelse, r.orelse)
            elif tt == "negated":
                self.ok("format", w, r, "branch conditions select complementary formats (branches exchanged)")
                self.seq(w.orelse, r.then)
                self.seq(w.then, r.orelse)
            else:
                self.bad("format", w, r, f"writer branches on `{canon(w.cond, self.ctx)}`, reader on `{canon(self.rsub(r.cond), self.ctx)}`")

    def format_domain(self):
        """(enum class, formats neither side refuses) - cached"""
        if not hasattr(self, "_fmt_dom"):
            from .rules.c01 import enum_of_unit, fails_under
            k = enum_of_unit(self.prog, self.u)
            dom = None
            if k is not None:
                members = self.prog.enum_members(k)
                W = [t for t in normalise(self.u.wterms, "w") if isinstance(t, GuardFail)]
                R = [t for t in normalise(self.u.rterms, "r") if isinstance(t, GuardFail)]
                dom = [m for m in members if not fails_under(W, m, k.name, "w") and not fails_under(R, m, k.name, "r")]
            self._fmt_dom = (k, dom)
        return self._fmt_dom

    def format_canon(self, cond):
        """canonical text of a condition over the block format: the accepted formats it selects; None when it is no such condition"""
        from .rules.c01 import eval_cond
        k, dom = self.format_domain()
        if k is None or not dom:
            return None
        sel = []
        for m in dom:
            v = eval_cond(cond, m, k.name)
            if v is None:
                return None
            if v:
                sel.append(m)
        return "self.format in {" + ", ".join(sorted(sel)) + "}"

    def format_truth(self, wc, rc):
        """Compare two branch conditions over the block format as truth tables on the formats that neither side refuses
        (the refusals are the unit's own top-level format guards)."""
        from .rules.c01 import enum_of_unit, eval_cond, fails_under
        k = enum_of_unit(self.prog, self.u)
        if k is None:
            return None
        members = self.prog.enum_members(k)
        W = normalise(self.u.wterms, "w")
        R = normalise(self.u.rterms, "r")
        dom = [m for m in members if not fails_under([t for t in W if isinstance(t, GuardFail)], m, k.name, "w")
               and not fails_under([t for t in R if isinstance(t, GuardFail)], m, k.name, "r")]
        if not dom:
            return None
        same = neg = True
        for m in dom:
            a, b = eval_cond(wc, m, k.name), eval_cond(rc, m, k.name)
            if a is None or b is None:
                return None
            if a != b:
                same = False
            if a == b:
                neg = False
        return "same" if same else ("negated" if neg else None)

    def poly_writer(self, w, r: Alt):
        """Reader dispatches on format, writer is polymorphic (dynamic dispatch on the element class)."""
        branches = []

        def collect(a):
            # the choice among the element codecs must be a function of the block's format word (a parameter of the decoder): the
            # writer chooses by the element's class, which the constructor ties to the format - a choice by some OTHER decoded
            # field (a model code, a flag) is tied to nothing
            rc = self.rsub(a.cond)
            decoded = [x.id for x in ast.walk(a.cond) if isinstance(x, ast.Name) and x.id.startswith("_R") and x.id.endswith("_")]
            params = set(self.u.reader.params) if self.u.reader is not None else set()
            free = {x.id for x in ast.walk(a.cond) if isinstance(x, ast.Name)} - params
            if decoded or any(isinstance(x, ast.Attribute) and isinstance(x.value, ast.Name) and x.value.id == "self" for x in ast.walk(rc)):
                fmt_only = all(isinstance(x.value, ast.Name) and x.value.id == "self" and x.attr == "format" for x in ast.walk(rc)
                               if isinstance(x, ast.Attribute) and isinstance(x.value, ast.Name) and x.value.id == "self")
                if not fmt_only:
                    self.bad("format", w, a, f"the reader chooses the element decoder by `{canon(rc, self.ctx)}`, a decoded field other than the block format: "
                             "the writer encodes each element by its class, which only the format is tied to")
            for br in (a.then, a.orelse):
                st = [t for t in br if has_stream(t)]
                if len(st) == 1 and isinstance(st[0], Alt):
                    collect(st[0])
                elif st:
                    branches.append((br, st))
                for t in br:
                    if not has_stream(t):
                        self.reffect(t)

        collect(r)
        if not branches or any(len(st) != 1 for _, st in branches):
            self.bad("format", w, r, "reader branches where the writer has a single unconditional term")
            return
        for br, st in branches:
            self.term(copy.copy(w), st[0])
        self.ok("format", w, r, f"polymorphic writer term matches all {len(branches)} reader branches")

    def sub(self, w: Sub, r: Sub):
        self.fields += 1
        pair = {("_write", "_build"), ("bwrite", "bread")}
        if (w.meth, r.meth) not in pair:
            self.bad("order", w, r, f"sub-codec methods do not pair: {w.meth} vs {r.meth}")
            return
        k = r.cls
        if k is None or k.get(w.meth) is None:
            self.bad("order", w, r, f"reader decodes with {k.name if k else '?'} which has no {w.meth}")
            return
        # writer receiver class, when E0 can tell
        wk = self.recv_class(w.recv)
        if wk is not None and wk.name != k.name:
            self.bad("attr", w, r, f"writer element class {wk.name} is decoded with {k.name}")
        else:
            self.ok("order", w, r, f"sub-codec {k.name}")
        if r.ph:
            self.bind[r.ph] = w.recv
            self.ph_class[r.ph] = k
        self.sub_args.append((w, r, [self.rsub(a) for a in r.args], {a: self.rsub(v) for a, v in r.kwargs.items()}))
        if not r.used:
            self.bad("attr", w, r, f"sub-object `{norm(w.recv)}` is decoded and dropped")

    def recv_class(self, recv):
        if isinstance(recv, ast.Name) and recv.id in self.wvars:
            rep = self.wvars[recv.id]
            if rep.kind == "coll" and is_self(rep.over) and isinstance(rep.over, ast.Attribute) and self.u.cls is not None:
                return facts.element_class(self.prog, self.u.cls, rep.over.attr)
        return None

    # ------------------------------------------------------------------ reconstruction
    def reconstruct(self):
        """attribute -> reconstructed expression (over writer-side `self`) of the decoded object."""
        ret = None
        objs = {}  # placeholder -> {'cls': ClassInfo, 'attrs': {a: expr}}
        var_of = {}
        result = None
        for t, env in self.effects:
            saved = self.varenv
            merged = dict(self.varenv)
            merged.update(env)
            self.varenv = merged
            try:
                if isinstance(t, Construct):
                    summ = facts.init_summary(self.prog, t.cls)
                    amap = {}
                    params = summ.params
                    for p, a in zip(params, t.args):
                        amap[p] = a
                    for kname, a in t.kwargs.items():
                        amap[kname] = a
                    for p in params:
                        if p not in amap and p in summ.defaults:
                            amap[p] = summ.defaults[p]
                    attrs = {}
                    for a, e in summ.attrs.items():
                        attrs[a] = self.rsub(subst(e, amap))
                    objs[t.ph] = {"cls": t.cls, "attrs": attrs, "node": t.node, "missing": [p for p in params if p not in amap]}
                    if t.var:
                        var_of[t.var] = t.ph
                elif isinstance(t, Install):
                    ph = var_of.get(t.var)
                    if t.var == "self":
                        objs.setdefault("self", {"cls": self.u.cls, "attrs": {}, "node": t.node, "missing": []})
                        ph = "self"
                    if ph in objs:
                        objs[ph]["attrs"][t.attr] = self.rsub(t.value)
                elif isinstance(t, CallOn):
                    ph = var_of.get(t.var)
                    if ph in objs:
                        self.apply_adder(objs[ph], t)
                elif isinstance(t, Ret):
                    v = t.value
                    if v is not None:
                        s = norm(v)
                        result = s if s in objs else (var_of.get(s) or ("self" if s == "self" else None))
            finally:
                self.varenv = saved
        self.objs = objs
        if result is None and "self" in objs:
            result = "self"
        return objs.get(result)

    def apply_adder(self, obj, t: CallOn):
        if t.meth.startswith("__extend__:"):
            # extending a container the constructor left empty installs the given sequence
            attr = t.meth.split(":", 1)[1]
            cur = obj["attrs"].get(attr)
            if cur is None or (isinstance(cur, (ast.List, ast.Tuple)) and not cur.elts):
                obj["attrs"][attr] = self.rsub(t.args[0])
            else:
                obj["attrs"][attr] = ast.Call(func=N("__auto__"), args=[], keywords=[])
            return
        if t.meth.startswith("__append__:"):
            # direct append to a container attribute of the object under construction
            appends = {t.meth.split(":", 1)[1]: [ast.Name(id="__item__", ctx=ast.Load())]}
            amap = {"__item__": t.args[0]}
        else:
            r = facts.adder_summary(self.prog, obj["cls"], t.meth)
            if r is None:
                return
            f, appends = r
            amap = {}
            for p, a in zip(f.params, t.args):
                amap[p] = a
            amap.update(t.kwargs)
        for attr, vals in appends.items():
            chosen = None
            for v in vals:
                if isinstance(v, ast.Name) and v.id in amap:
                    chosen = amap[v.id]
            if chosen is None:
                obj["attrs"][attr] = ast.Call(func=N("__auto__"), args=[], keywords=[])
                continue
            e = self.rsub(chosen)
            # appended once per loop iteration: X[__i__] for i in range(len) -> X ; element of writer loop -> collection
            if isinstance(e, ast.Subscript) and norm(e.slice) == "__i__":
                obj["attrs"][attr] = e.value
            elif hasattr(self, "last_rep") and isinstance(e, ast.Name) and e.id in self.last_rep[0].vars and self.last_rep[0].kind == "coll":
                obj["attrs"][attr] = self.last_rep[0].over
            else:
                obj["attrs"][attr] = ast.Call(func=N("__list__"), args=[e], keywords=[])


def _n(t):
    if t is None:
        return None
    return getattr(t, "stmt", None) or getattr(t, "node", None)


def is_self(node):
    while isinstance(node, ast.Attribute):
        node = node.value
    return isinstance(node, ast.Name) and node.id == "self"


def _prod(shape):
    n = 1
    for s in shape:
        n *= s
    return n


def _poly_ast(p: Poly):
    from .sym import poly_to_ast

    return poly_to_ast(p)
