"""E5 finite guard evaluation: a constructor body is evaluated on abstract argument descriptors
(kind x shape/len representatives). Only the boolean structure of the guards is evaluated, with
Python's precedence and short-circuit semantics as encoded in the AST; no path constraints are collected."""
from __future__ import annotations

import ast

from .facts import shape_of_expr
from .report import AnalysisError, norm


class Raises(Exception):
    def __init__(self, exc):
        self.exc = exc


class Unknown(Exception):
    pass


class Desc:
    """abstract argument: kind in ndarray | list | tuple | CameraViewPort | NoneType | str | int ; shape/len where meaningful"""

    def __init__(self, kind, shape=None, length=None, dtype=None):
        self.kind = kind
        self.shape = shape
        self.length = length
        self.dtype = dtype      # dtype literal of an ndarray when the evaluation should know it ("<f4"), else unknown

    def __repr__(self):
        if self.kind == "ndarray":
            return f"ndarray{self.shape}" + (f"[{self.dtype}]" if self.dtype else "")
        if self.length is not None:
            return f"{self.kind}(len {self.length})"
        return self.kind

    def len(self):
        if self.kind == "ndarray":
            if not self.shape:
                raise Raises("TypeError")
            return self.shape[0]
        if self.length is not None:
            return self.length
        raise Raises("TypeError")

    def iterable(self):
        if self.kind == "ndarray":
            return bool(self.shape)
        return self.kind in ("list", "tuple", "str")


KIND_OF_TYPE = {"np.ndarray": "ndarray", "numpy.ndarray": "ndarray", "ndarray": "ndarray", "list": "list", "tuple": "tuple",
                "CameraViewPort": "CameraViewPort", "str": "str", "int": "int"}


ABC_KINDS = {"Sequence": ["list", "tuple", "str"], "MutableSequence": ["list"], "Iterable": ["list", "tuple", "str", "ndarray"],
             "Collection": ["list", "tuple", "str"], "Sized": ["list", "tuple", "str", "ndarray"], "Container": ["list", "tuple", "str", "ndarray"],
             "Reversible": ["list", "tuple", "str"], "Hashable": ["tuple", "str", "int", "NoneType"]}


class Evaluator:
    def __init__(self, prog, cls, env):
        self.prog = prog
        self.cls = cls
        self.env = env  # name -> Desc | python constant | ('sym', text)

    def ev(self, n):
        if isinstance(n, ast.Constant):
            return n.value
        if isinstance(n, ast.Name):
            if n.id in self.env:
                return self.env[n.id]
            raise Unknown(n.id)
        if isinstance(n, ast.Tuple):
            return tuple(self.ev(e) for e in n.elts)
        if isinstance(n, ast.List):
            return Desc("list", length=len(n.elts))       # a list display: a list of that many items
        if isinstance(n, (ast.GeneratorExp, ast.ListComp)) and len(n.generators) == 1 and not n.generators[0].ifs and not n.generators[0].is_async:
            # a comprehension over concrete tuples of ints (shapes), possibly zipped - zip stops at the SHORTER one, which is how a
            # guard written this way differs from tuple equality: evaluated element by element
            g = n.generators[0]
            if isinstance(g.iter, ast.Call) and norm(g.iter.func) == "zip" and g.iter.args and not g.iter.keywords:
                seqs = [self.ev(a) for a in g.iter.args]
                if not all(isinstance(q, tuple) and all(isinstance(x, int) for x in q) for q in seqs):
                    raise Unknown("zip over non-shapes")
                rows = list(zip(*seqs))
            else:
                v = self.ev(g.iter)
                if not (isinstance(v, tuple) and all(isinstance(x, int) for x in v)):
                    raise Unknown("comprehension over a non-shape")
                rows = [(x,) for x in v]
            names = [g.target.id] if isinstance(g.target, ast.Name) else [e.id for e in g.target.elts] if isinstance(g.target, ast.Tuple) and all(isinstance(e, ast.Name) for e in g.target.elts) else None
            if names is None or any(len(r) != len(names) for r in rows):
                raise Unknown("comprehension target")
            vals = []
            for r in rows:
                sub = Evaluator(self.prog, self.cls, {**self.env, **dict(zip(names, r))})
                vals.append(bool(sub.truth(sub.ev(n.elt))))
            return ("bools", tuple(vals))
        if isinstance(n, ast.IfExp):
            return self.ev(n.body) if self.truth(self.ev(n.test)) else self.ev(n.orelse)
        if isinstance(n, ast.UnaryOp) and isinstance(n.op, ast.Not):
            return not self.truth(self.ev(n.operand))
        if isinstance(n, ast.BoolOp):
            if isinstance(n.op, ast.And):
                v = True
                for x in n.values:
                    v = self.ev(x)
                    if not self.truth(v):
                        return v
                return v
            v = False
            for x in n.values:
                v = self.ev(x)
                if self.truth(v):
                    return v
            return v
        if isinstance(n, ast.Call):
            fn = norm(n.func)
            if fn == "isinstance" and len(n.args) == 2:
                d = self.ev(n.args[0])
                types = n.args[1].elts if isinstance(n.args[1], ast.Tuple) else [n.args[1]]
                kinds = []
                for t in types:
                    k = KIND_OF_TYPE.get(norm(t))
                    if k is None and norm(t).split(".")[-1] in ABC_KINDS:
                        # an abstract base class of collections.abc / typing: the concrete kinds of the partition that are instances of it
                        kinds += ABC_KINDS[norm(t).split(".")[-1]]
                        continue
                    if k is None:
                        raise Unknown(norm(t))
                    kinds.append(k)
                if not isinstance(d, Desc):
                    raise Unknown("isinstance on non-descriptor")
                return d.kind in kinds
            if fn == "len" and len(n.args) == 1:
                v = self.ev(n.args[0])
                if isinstance(v, Desc):
                    return v.len()
                if isinstance(v, tuple):
                    return len(v)
                raise Unknown("len")
            if fn == "is_iterable" and len(n.args) == 1:
                v = self.ev(n.args[0])
                if isinstance(v, Desc):
                    return v.iterable()
                raise Unknown("is_iterable")
            if fn in ("np.dtype",):
                return ("sym", norm(n))
            if fn in ("np.shape", "numpy.shape", "np.ndim") and len(n.args) == 1:
                v = self.ev(n.args[0])
                if isinstance(v, Desc):
                    shp = tuple(v.shape) if v.kind == "ndarray" else ((v.length,) if v.kind in ("list", "tuple") and v.length is not None else ())
                    return shp if fn.endswith("shape") else len(shp)
                raise Unknown(fn)
            # element-wise numpy comparisons of two shapes (tuples of ints): numpy BROADCASTS them - (3,) against (3, 3) gives
            # [True, True] - which is exactly how such a guard differs from tuple equality
            if fn.split(".")[-1] in ("equal", "not_equal") and fn.split(".")[0] in ("np", "numpy") and len(n.args) == 2 and not n.keywords:
                a, b = self.ev(n.args[0]), self.ev(n.args[1])
                norm_ = lambda v: (v,) if isinstance(v, int) and not isinstance(v, bool) else v
                a, b = norm_(a), norm_(b)
                if isinstance(a, tuple) and isinstance(b, tuple) and all(isinstance(x, int) for x in a + b):
                    if len(a) == len(b) or len(a) == 1 or len(b) == 1:
                        m_ = max(len(a), len(b))
                        aa = a * m_ if len(a) == 1 and m_ > 1 else a
                        bb = b * m_ if len(b) == 1 and m_ > 1 else b
                        return ("bools", tuple((x == y) if fn.endswith("not_equal") is False else (x != y) for x, y in zip(aa, bb)))
                    raise Raises("ValueError")
                raise Unknown(fn)
            if fn in ("np.all", "numpy.all", "all", "np.any", "numpy.any", "any") and len(n.args) == 1 and not n.keywords:
                v = self.ev(n.args[0])
                if isinstance(v, tuple) and len(v) == 2 and v[0] == "bools":
                    return all(v[1]) if fn.endswith("all") else any(v[1])
                if isinstance(v, bool):
                    return v
                raise Unknown(fn)
            if fn in ("np.array_equal", "numpy.array_equal") and len(n.args) == 2 and not n.keywords:
                a, b = self.ev(n.args[0]), self.ev(n.args[1])
                if isinstance(a, tuple) and isinstance(b, tuple) and all(isinstance(x, int) for x in a + b):
                    return a == b
                raise Unknown(fn)
            raise Unknown(fn)
        if isinstance(n, ast.Attribute):
            # T.btype.shape
            shp = shape_of_expr(self.prog, self.cls, n)
            if shp is not None:
                return tuple(shp)
            if isinstance(n.value, ast.Name) and n.value.id in self.env and isinstance(self.env[n.value.id], Desc):
                d = self.env[n.value.id]
                if n.attr == "shape":
                    if d.kind != "ndarray":
                        raise Raises("AttributeError")
                    return tuple(d.shape)
                if n.attr == "ndim":
                    if d.kind != "ndarray":
                        raise Raises("AttributeError")
                    return len(d.shape)
                if n.attr == "dtype":
                    if d.kind != "ndarray":
                        raise Raises("AttributeError")
                    return ("sym", f"np.dtype({d.dtype!r})") if d.dtype else ("sym", "dtype")
                raise Unknown(n.attr)
            return ("sym", norm(n))
        if isinstance(n, ast.Subscript) and not isinstance(n.slice, ast.Slice):
            v, i = self.ev(n.value), self.ev(n.slice)
            if isinstance(v, tuple) and isinstance(i, int) and not (v and v[0] == "sym"):
                try:
                    return v[i]
                except IndexError:
                    raise Raises("IndexError")
            raise Unknown(norm(n))
        if isinstance(n, ast.Compare) and len(n.ops) == 1:
            a, b = self.ev(n.left), self.ev(n.comparators[0])
            op = n.ops[0]
            if isinstance(a, tuple) and a and a[0] == "sym" or isinstance(b, tuple) and b and b[0] == "sym":
                if isinstance(op, (ast.Eq, ast.Is)):
                    return a == b
                if isinstance(op, (ast.NotEq, ast.IsNot)):
                    return a != b
                raise Unknown("sym compare")
            if isinstance(a, Desc) or isinstance(b, Desc):
                if isinstance(op, (ast.Is, ast.IsNot)) and (a is None or b is None):
                    d = a if isinstance(a, Desc) else b
                    r = d.kind == "NoneType"
                    return r if isinstance(op, ast.Is) else not r
                raise Unknown("compare on descriptor")
            if isinstance(op, ast.Eq):
                return a == b
            if isinstance(op, ast.NotEq):
                return a != b
            if isinstance(op, ast.Gt):
                return a > b
            if isinstance(op, ast.GtE):
                return a >= b
            if isinstance(op, ast.Lt):
                return a < b
            if isinstance(op, ast.LtE):
                return a <= b
            if isinstance(op, ast.Is):
                return a is b
            if isinstance(op, ast.IsNot):
                return a is not b
        raise Unknown(norm(n))

    @staticmethod
    def truth(v):
        if isinstance(v, Desc):
            raise Unknown("truthiness of descriptor")
        if isinstance(v, tuple) and len(v) == 2 and v[0] == "bools":
            # the truth value of an array of comparisons: its only element, or numpy's "ambiguous" ValueError
            if len(v[1]) == 1:
                return v[1][0]
            raise Raises("ValueError")
        return bool(v)


def mentions(node, names):
    return any(isinstance(n, ast.Name) and n.id in names for n in ast.walk(node))


def run_ctor(prog, cls, fn: ast.FunctionDef, env, track):
    """Evaluate constructor body on the abstract environment. Returns ('accept', None) or ('refuse', exc name).
    Statements whose tests do not mention tracked names are skipped (they cannot decide about them)."""
    ev = Evaluator(prog, cls, dict(env))
    live = set(track)
    opaque = set()   # locals computed from tracked names whose value the finite evaluation could not determine

    def block(stmts):
        for st in stmts:
            if isinstance(st, ast.If):
                if mentions(st.test, opaque):
                    raise Unknown(f"a test reads `{norm(st.test)}`, computed from the argument in a way that is not modelled")
                if not mentions(st.test, live):
                    continue
                try:
                    t = Evaluator.truth(ev.ev(st.test))
                except Raises as r:
                    return ("refuse", r.exc)
                r = block(st.body if t else st.orelse)
                if r is not None:
                    return r
            elif isinstance(st, ast.Raise):
                e = st.exc.func if isinstance(st.exc, ast.Call) else st.exc
                return ("refuse", norm(e) if e is not None else "")
            elif isinstance(st, (ast.Assign, ast.AnnAssign)):
                # a conversion of a tracked argument that refuses by ELEMENT TYPE (`x.astype(t, casting="same_kind")`: TypeError for a
                # float array into an integer type) refuses arguments of exactly the accepted shape: the descriptors carry no
                # element type, so the statement is a refusal for some argument of every accepted descriptor
                if st.value is not None:
                    for c_ in ast.walk(st.value):
                        if isinstance(c_, ast.Call) and isinstance(c_.func, ast.Attribute) and c_.func.attr == "astype" and isinstance(c_.func.value, ast.Name) and c_.func.value.id in live:
                            k_ = next((k.value for k in c_.keywords if k.arg == "casting"), c_.args[2] if len(c_.args) > 2 else None)
                            if k_ is not None and not (isinstance(k_, ast.Constant) and k_.value == "unsafe"):
                                return ("refuse", f"TypeError from astype(casting={norm(k_)})")
                targets = st.targets if isinstance(st, ast.Assign) else [st.target]
                # a local computed from a tracked argument (`fits = len(x) == 2`) is tracked too: a later `if not fits: raise` decides about the argument
                if st.value is not None and len(targets) == 1 and isinstance(targets[0], ast.Name) and targets[0].id not in track \
                        and (mentions(st.value, live | opaque) or (isinstance(st.value, ast.Constant) and isinstance(st.value.value, (bool, int, str, type(None))))):
                    nm = targets[0].id
                    try:
                        if mentions(st.value, opaque):
                            raise Unknown(nm)
                        val = ev.ev(st.value)
                        ev.env[nm] = val
                        live.add(nm)
                        opaque.discard(nm)
                    except Raises as r:
                        return ("refuse", r.exc)
                    except Unknown:
                        live.discard(nm)
                        ev.env.pop(nm, None)
                        opaque.add(nm)
                    continue
                for t in targets:
                    if isinstance(t, ast.Name) and t.id in live:
                        # rebound: `p = p` keeps the value, anything else ends tracking of that name
                        if not (isinstance(st.value, ast.Name) and st.value.id == t.id):
                            live.discard(t.id)
                            ev.env.pop(t.id, None)
            elif isinstance(st, ast.Return):
                return ("accept", None)
        return None

    r = block(fn.body)
    return r if r is not None else ("accept", None)
