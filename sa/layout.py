"""E2 codec abstract interpreter: translates _write/_build (and Tdf.new/__enter__) into layout terms.

Nothing is executed: statements are walked in order, locals are substituted symbolically, every
call that touches the stream becomes a term. Any statement that mentions the stream and is not one
of the recognised kinds raises AnalysisError (exit 2), never a violation.
"""
from __future__ import annotations

import ast
import copy
from dataclasses import dataclass, field

from .index import ClassInfo, DType, FuncInfo, ModuleInfo, Program, is_self_attr
from .report import AnalysisError, norm
from .sym import C, N, Ctx, names_in, simplify, subst


# ------------------------------------------------------------------------------------ terms
@dataclass
class Term:
    node: ast.AST = None
    stmt = None  # enclosing statement (set by the interpreter; used for finding keys)


@dataclass
class Field(Term):
    codec: str = ""
    dt: DType = None
    role: str = "data"  # data | pad | skip
    count: ast.AST = None  # reader: n items (None = single item); pad/skip: n
    value: ast.AST = None  # writer value expression (substituted)
    ph: str = None  # reader placeholder
    used: bool = True  # reader: result bound/used


@dataclass
class Str(Term):
    width: ast.AST = None
    value: ast.AST = None
    ph: str = None
    used: bool = True
    encoding: ast.AST = None


@dataclass
class Date(Term):
    value: ast.AST = None
    ph: str = None
    used: bool = True


@dataclass
class Raw(Term):
    nbytes: ast.AST = None
    value: ast.AST = None
    ph: str = None
    op: str = "write"  # write | read | seek
    used: bool = True


@dataclass
class Rep(Term):
    kind: str = "coll"  # coll | range | rows
    over: ast.AST = None  # coll: collection expr ; rows: table expr (placeholder)
    lo: ast.AST = None
    hi: ast.AST = None
    vars: list = field(default_factory=list)
    body: list = field(default_factory=list)
    listph: str = None  # reader comprehension: placeholder for the resulting list
    elem: ast.AST = None  # reader comprehension element expression (over placeholders)
    filt: ast.AST = None


@dataclass
class Alt(Term):
    cond: ast.AST = None
    then: list = field(default_factory=list)
    orelse: list = field(default_factory=list)


@dataclass
class Sub(Term):
    cls: ClassInfo = None
    meth: str = ""
    recv: ast.AST = None
    args: list = field(default_factory=list)
    kwargs: dict = field(default_factory=dict)
    ph: str = None
    used: bool = True


@dataclass
class Fail(Term):
    exc: str = ""


# non-stream events (kept in sequence; several rules read them)
@dataclass
class Alloc(Term):
    name: str = ""
    func: str = ""  # np.empty / np.zeros / np.full ...
    length: ast.AST = None
    dtype: ast.AST = None
    fill: ast.AST = None


@dataclass
class Fill(Term):
    name: str = ""
    value: ast.AST = None


@dataclass
class Store(Term):
    name: str = ""  # buffer local name
    index: ast.AST = None
    value: ast.AST = None


@dataclass
class Construct(Term):
    var: str = None
    cls: ClassInfo = None
    args: list = field(default_factory=list)
    kwargs: dict = field(default_factory=dict)
    ph: str = None


@dataclass
class Install(Term):
    var: str = ""
    attr: str = ""
    value: ast.AST = None


@dataclass
class CallOn(Term):
    var: str = ""
    meth: str = ""
    args: list = field(default_factory=list)
    kwargs: dict = field(default_factory=dict)


@dataclass
class Ret(Term):
    value: ast.AST = None


@dataclass
class Bind(Term):
    name: str = ""
    value: ast.AST = None


STREAM_TERMS = (Field, Str, Date, Raw, Sub)


def has_stream(t) -> bool:
    if isinstance(t, STREAM_TERMS):
        return True
    if isinstance(t, Rep):
        return any(has_stream(x) for x in t.body)
    if isinstance(t, Alt):
        return any(has_stream(x) for x in t.then + t.orelse)
    return False


def walk_terms(terms):
    for t in terms:
        yield t
        if isinstance(t, Rep):
            yield from walk_terms(t.body)
        elif isinstance(t, Alt):
            yield from walk_terms(t.then)
            yield from walk_terms(t.orelse)


def show(terms, ind=0):
    out = []
    pad = "  " * ind
    for t in terms:
        if isinstance(t, Field):
            c = f" x{norm(t.count)}" if t.count is not None else ""
            v = f" <- {norm(t.value)}" if t.value is not None else (f" -> {t.ph}" if t.ph else "")
            out.append(f"{pad}{t.role.upper()} {t.codec.split('.')[-1]}:{t.dt.describe()}{c}{v}")
        elif isinstance(t, Str):
            out.append(f"{pad}STR[{norm(t.width)}]" + (f" <- {norm(t.value)}" if t.value is not None else f" -> {t.ph}{'' if t.used else ' (unused)'}"))
        elif isinstance(t, Date):
            out.append(f"{pad}DATE" + (f" <- {norm(t.value)}" if t.value is not None else f" -> {t.ph}"))
        elif isinstance(t, Raw):
            out.append(f"{pad}RAW {t.op}[{norm(t.nbytes)}]")
        elif isinstance(t, Rep):
            if t.kind == "range":
                h = f"range({norm(t.lo)}, {norm(t.hi)})"
            else:
                h = f"{t.kind} {norm(t.over)}"
            out.append(f"{pad}REP {','.join(t.vars)} in {h}" + (f" => {t.listph}" if t.listph else ""))
            out += show(t.body, ind + 1)
        elif isinstance(t, Alt):
            out.append(f"{pad}ALT {norm(t.cond)}")
            out += show(t.then, ind + 1)
            if t.orelse:
                out.append(f"{pad}ELSE")
                out += show(t.orelse, ind + 1)
        elif isinstance(t, Sub):
            r = f" recv={norm(t.recv)}" if t.recv is not None else ""
            out.append(f"{pad}SUB {t.cls.name if t.cls else '?'}.{t.meth}{r} args=[{', '.join(norm(a) for a in t.args)}]" + (f" -> {t.ph}" if t.ph else ""))
        elif isinstance(t, Fail):
            out.append(f"{pad}FAIL {t.exc}")
        elif isinstance(t, Alloc):
            out.append(f"{pad}alloc {t.name} = {t.func}({norm(t.length)})")
        elif isinstance(t, Fill):
            out.append(f"{pad}fill {t.name}[:] = {norm(t.value)}")
        elif isinstance(t, Store):
            out.append(f"{pad}store {t.name}[{norm(t.index)}] = {norm(t.value)}")
        elif isinstance(t, Construct):
            out.append(f"{pad}construct {t.var or ''} = {t.cls.name}(...) -> {t.ph}")
        elif isinstance(t, Install):
            out.append(f"{pad}install {t.var}.{t.attr} = {norm(t.value)}")
        elif isinstance(t, CallOn):
            out.append(f"{pad}call {t.var}.{t.meth}({', '.join(norm(a) for a in t.args)})")
        elif isinstance(t, Ret):
            out.append(f"{pad}return {norm(t.value)}")
    return out


# ------------------------------------------------------------------------------------ interpreter
class Interp:
    """One run over one function body. side = 'w' (writer) or 'r' (reader)."""

    _ph_counter = 0

    def __init__(self, prog: Program, func: FuncInfo, stream: str, side: str, env=None):
        self.prog = prog
        self.func = func
        self.m: ModuleInfo = func.module
        self.stream = stream
        self.side = side
        self.env = dict(env or {})
        self.ctx = Ctx(prog, func.module, func.cls)
        self.ph_class = {}  # placeholder -> ClassInfo (Sub / Construct results)
        self.unused_calls = []
        self.ph_field = {}  # placeholder -> Field term (decoded values)
        self.constructs = {}  # placeholder -> Construct term (objects built in this function)
        self.self_attrs = None  # attr -> expression, when interpreting a method of an object constructed by the caller

    # -- helpers ---------------------------------------------------------------------------------
    def fresh(self):
        Interp._ph_counter += 1
        return f"_R{Interp._ph_counter}_"

    def is_stream(self, node):
        return node is not None and norm(node) == self.stream

    def mentions_stream(self, node):
        for n in ast.walk(node):
            if isinstance(n, (ast.Name, ast.Attribute)) and norm(n) == self.stream:
                return True
        return False

    def ev(self, node):
        if node is None:
            return None
        if self.self_attrs:
            attrs = self.self_attrs
            sn = self.func.self_name or "self"

            class A(ast.NodeTransformer):
                def visit_Attribute(self, n):
                    if isinstance(n.value, ast.Name) and n.value.id == sn and n.attr in attrs and isinstance(n.ctx, ast.Load):
                        return copy.deepcopy(attrs[n.attr])
                    self.generic_visit(n)
                    return n

            node = A().visit(copy.deepcopy(node))
        out = subst(node, self.env)
        if self.constructs and any(isinstance(n, ast.Attribute) and isinstance(n.value, ast.Name) and n.value.id in self.constructs for n in ast.walk(out)):
            # <object built here>.<attr> is what its constructor stored there
            interp = self

            class B(ast.NodeTransformer):
                def visit_Attribute(self, n):
                    self.generic_visit(n)
                    if isinstance(n.value, ast.Name) and n.value.id in interp.constructs and isinstance(n.ctx, ast.Load):
                        attrs = interp.ctor_attrs(interp.constructs[n.value.id])
                        if attrs and n.attr in attrs and not any(isinstance(x, ast.Name) and x.id == n.value.id for x in ast.walk(attrs[n.attr])):
                            return copy.deepcopy(attrs[n.attr])
                    return n

            out = B().visit(copy.deepcopy(out))
        return simplify(out, self.ctx)

    def err(self, node, why):
        raise AnalysisError(
            f"{self.m.name}.{self.func.qualname} line {getattr(node, 'lineno', '?')}: {why}: `{norm(node)}`"
        )

    # -- call classification ---------------------------------------------------------------------
    def classify(self, call: ast.Call):
        """Return a term (without placeholder bookkeeping) if `call` is a stream operation, else None."""
        f = call.func
        if not isinstance(f, ast.Attribute):
            return None
        args = call.args
        kw = {k.arg: k.value for k in call.keywords if k.arg}
        # BTSString.read(w, stream.read(w)) is what BTSString.bread(stream, w) does (its definition, checked by the string-codec rule)
        if isinstance(f.value, ast.Name) and f.attr == "read" and f.value.id not in self.env and len(args) >= 2 and isinstance(args[1], ast.Call) \
                and isinstance(args[1].func, ast.Attribute) and args[1].func.attr == "read" and self.is_stream(args[1].func.value) and len(args[1].args) == 1 \
                and norm(self.ev(args[1].args[0])) == norm(self.ev(args[0])):
            r = self.prog.resolve(self.m, f.value.id)
            if r and r[0] == "class" and r[1].name == "BTSString":
                enc = args[2] if len(args) > 2 else kw.get("encoding")
                return Str(node=call, width=self.ev(args[0]), encoding=enc)
        # stream.write / read / seek
        if self.is_stream(f.value):
            # stream.write(BTSString.write(w, v)) is what BTSString.bwrite(stream, w, v) does
            if f.attr == "write" and len(args) == 1 and isinstance(args[0], ast.Call) and isinstance(args[0].func, ast.Attribute) and args[0].func.attr == "write" \
                    and isinstance(args[0].func.value, ast.Name) and args[0].func.value.id not in self.env:
                r = self.prog.resolve(self.m, args[0].func.value.id)
                if r and r[0] == "class" and r[1].name == "BTSString":
                    a2 = args[0].args
                    k2 = {k.arg: k.value for k in args[0].keywords if k.arg}
                    wd = a2[0] if a2 else k2.get("size")
                    val = a2[1] if len(a2) > 1 else k2.get("data")
                    if wd is not None and val is not None:
                        return Str(node=call, width=self.ev(wd), value=self.ev(val))
            # stream.write(<codec>.write(v)) / .pad(n) / BTSDate.write(d): what <codec>.bwrite / bpad / BTSDate.bwrite do (their definitions,
            # checked by the primitive-codec / date-codec rules)
            if f.attr == "write" and len(args) == 1 and isinstance(args[0], ast.Call) and isinstance(args[0].func, ast.Attribute) and isinstance(args[0].func.value, ast.Name) \
                    and args[0].func.value.id not in self.env and args[0].func.attr in ("write", "pad"):
                inner = args[0]
                cod = self.prog.codec(self.m, inner.func.value.id)
                if cod is not None:
                    cid, dt = cod
                    if inner.func.attr == "write" and len(inner.args) == 1 and not inner.keywords:
                        return Field(node=call, codec=cid, dt=dt, role="data", value=self.ev(inner.args[0]))
                    if inner.func.attr == "pad" and len(inner.args) <= 1 and not inner.keywords:
                        return Field(node=call, codec=cid, dt=dt, role="pad", count=self.ev(inner.args[0]) if inner.args else C(1))
                r = self.prog.resolve(self.m, inner.func.value.id)
                if r and r[0] == "class" and r[1].name == "BTSDate" and inner.func.attr == "write" and len(inner.args) == 1:
                    return Date(node=call, value=self.ev(inner.args[0]))
            if f.attr == "write" and len(args) == 1:
                return Raw(node=call, op="write", nbytes=self.bytes_len(args[0]), value=self.ev(args[0]))
            if f.attr == "read":
                if not args:
                    return Raw(node=call, op="read", nbytes=None)
                return Raw(node=call, op="read", nbytes=self.ev(args[0]))
            if f.attr == "seek":
                whence = args[1] if len(args) > 1 else kw.get("whence")
                if whence is not None and norm(whence) in ("1", "os.SEEK_CUR", "io.SEEK_CUR", "SEEK_CUR"):
                    return Raw(node=call, op="seek", nbytes=self.ev(args[0]))
                # An absolute target that does not come from a position taken in this method (no tell()) names a fixed place of the
                # STREAM, not of the block: right only for a block that starts at byte 0, and no block of a TDF file does
                # (header 64 + table >= 288 bytes come first).  Definite for every property that reads or writes blocks in files.
                tgt = args[0] if args else kw.get("offset", kw.get("pos"))
                names = {x.id for x in ast.walk(tgt) if isinstance(x, ast.Name)} if tgt is not None else {"?"}
                from_tell = any(isinstance(x, ast.Call) and isinstance(x.func, ast.Attribute) and x.func.attr == "tell" for x in ast.walk(tgt)) if tgt is not None else True
                local_or_param = {n for n in names if n in self.env or n in getattr(self.func, "params", ())}
                if (whence is None or norm(whence) in ("0", "os.SEEK_SET", "io.SEEK_SET", "SEEK_SET")) and tgt is not None and not from_tell and not local_or_param \
                        and self.func.name in ("_write", "_build") and not any(isinstance(x, ast.Attribute) and isinstance(x.value, ast.Name) and x.value.id == "self" for x in ast.walk(tgt)):
                    from .report import DefiniteViolation
                    raise DefiniteViolation("codec-call-shape", self.m.path.name, self.func.qualname, call,
                                            f"`{norm(call)}` moves the stream to a fixed absolute position inside a block codec: it lands inside this block only when the block starts at byte 0 "
                                            "of the stream - in a TDF file (header and table come first) it jumps out of the block, so what is read / written there belongs to something else",
                                            construct=f"{self.func.qualname} absolute seek", props=("C01", "C02", "C03", "C04", "C05", "C06", "C09", "C10", "C12", "C13", "C14", "C15"))
                self.err(call, "absolute seek inside a codec method is not modelled")
            if f.attr in ("flush", "tell", "close"):
                return None
            self.err(call, "unmodelled stream method")
        if not args and not kw:
            return None
        first = args[0] if args else None
        if isinstance(f.value, ast.Name):
            name = f.value.id
            cod = self.prog.codec(self.m, name) if name not in self.env else None
            if cod and f.attr in ("bwrite", "bread", "bpad", "skip") and self.is_stream(first):
                cid, dt = cod
                if f.attr == "bwrite":
                    val = args[1] if len(args) == 2 else kw.get("data")
                    if val is None or len(args) > 2:
                        self.err(call, "bwrite arity")
                    # RECORD.bwrite(stream, [(e1, e2) for v in COLL]) writes, for every v in order, the fields e1, e2 of one record:
                    # the same bytes as a loop of the per-field writes
                    rv = self.ev(val)
                    if isinstance(rv, ast.Call) and norm(rv.func) in ("np.array", "np.asarray", "numpy.array", "numpy.asarray") and rv.args \
                            and all(k.arg == "dtype" and norm(k.value) == f"{f.value.id}.btype" for k in rv.keywords):
                        rv = rv.args[0]     # np.array(rows, dtype=RECORD.btype): the rows themselves
                    if dt.kind == "V" and isinstance(rv, (ast.ListComp, ast.GeneratorExp)) and len(rv.generators) == 1 and not rv.generators[0].ifs \
                            and isinstance(rv.elt, ast.Tuple) and len(rv.elt.elts) == len(dt.fields) and all(d.kind != "V" for _, d in dt.fields):
                        g = rv.generators[0]
                        body = [Field(node=call, codec=f"{cid}.{nm}", dt=d, role="data", value=e) for (nm, d), e in zip(dt.fields, rv.elt.elts)]
                        return self.make_rep(g.target, g.iter, body, call)
                    return Field(node=call, codec=cid, dt=dt, role="data", value=self.ev(val))
                if f.attr == "bread":
                    n = args[1] if len(args) > 1 else kw.get("n")
                    if n is not None and isinstance(n, ast.Constant) and n.value is None:
                        n = None
                    return Field(node=call, codec=cid, dt=dt, role="data", count=self.ev(n) if n is not None else None)
                n = args[1] if len(args) > 1 else kw.get("n")
                if (self.side == "w") != (f.attr == "bpad") and self.func.name in ("_write", "_build", "new", "__enter__"):
                    # a reader that PADS writes into the file it reads; a writer that SKIPS emits nothing (a seek past the end yields bytes
                    # only if something is written behind it): the reserved bytes are missing whenever they come last
                    from .report import DefiniteViolation
                    raise DefiniteViolation("codec-call-shape", self.m.path.name, self.func.qualname, call,
                                            f"`{norm(call)}` in a {'writer' if self.side == 'w' else 'reader'}: {'skip() moves the cursor and emits no bytes, so the reserved word is not written (the record is short by it when nothing follows)' if self.side == 'w' else 'bpad() writes zeros into the stream being decoded'}",
                                            construct=f"{self.func.qualname} {f.attr} on the {'write' if self.side == 'w' else 'read'} side", props=("C01", "C02", "C03", "C05", "C06", "C09", "C12"))
                return Field(node=call, codec=cid, dt=dt, role="pad" if f.attr == "bpad" else "skip",
                             count=self.ev(n) if n is not None else C(1))
            r = self.prog.resolve(self.m, name) if name not in self.env else None
            if r and r[0] == "class" and self.is_stream(first):
                k = r[1]
                if k.name == "BTSString" and f.attr in ("bwrite", "bread"):
                    if f.attr == "bwrite":
                        wd = args[1] if len(args) > 1 else kw.get("size")
                        val = args[2] if len(args) > 2 else kw.get("data")
                        if wd is None or val is None or len(args) > 3:
                            self.err(call, "BTSString.bwrite arity")
                        return Str(node=call, width=self.ev(wd), value=self.ev(val))
                    w = args[1] if len(args) > 1 else kw.get("size")
                    enc = args[2] if len(args) > 2 else kw.get("encoding")
                    return Str(node=call, width=self.ev(w), encoding=enc)
                if k.name == "BTSDate" and f.attr in ("bwrite", "bread"):
                    if f.attr == "bwrite":
                        return Date(node=call, value=self.ev(args[1] if len(args) > 1 else kw.get("data")))
                    return Date(node=call)
                if f.attr in ("_build", "bread", "build"):
                    return Sub(node=call, cls=k, meth=f.attr, args=[self.ev(a) for a in args[1:]],
                               kwargs={a: self.ev(v) for a, v in kw.items()})
                if f.attr in ("_write", "bwrite", "write"):
                    self.err(call, "class-level write call not modelled")
        # helper of the same class that receives the stream: self._helper(stream, ...) / Cls._helper(stream, ...) - inlined (bound 2)
        if isinstance(f.value, ast.Name) and self.func.cls is not None and f.attr not in ("_write", "_build", "bwrite", "bread") and self.is_stream(first):
            owner = None
            if f.value.id == (self.func.self_name or "self"):
                owner = self.func.cls
            else:
                k = self.prog.resolve_class(self.m, f.value.id) if f.value.id not in self.env else None
                if k is not None and k.name == self.func.cls.name:
                    owner = k
            h = self.prog.lookup_method(owner, f.attr) if owner is not None else None
            if h is not None and getattr(self, "_inline_depth", 0) < 2:
                return ("inline", h, call)
        # instance sub-codec:  x._write(stream, ...) / x.bwrite(stream)
        if f.attr in ("_write", "bwrite") and self.is_stream(first):
            recv = self.ev(f.value)
            if isinstance(recv, ast.Name) and recv.id in self.constructs and getattr(self, "_inline_depth", 0) < 2:
                c = self.constructs[recv.id]
                h = self.prog.lookup_method(c.cls, f.attr)
                attrs = self.ctor_attrs(c)
                if h is not None and attrs is not None:
                    return ("inline", h, call, attrs)
            return Sub(node=call, cls=None, meth=f.attr, recv=recv, args=[self.ev(a) for a in args[1:]],
                       kwargs={a: self.ev(v) for a, v in kw.items()})
        if any(self.is_stream(a) for a in list(args) + list(kw.values())):
            if f.attr in ("bwrite", "bread", "skip", "bpad", "pad", "_write", "_build") and args and not self.is_stream(first) and any(self.is_stream(a) for a in args[1:]):
                # the codec operations take the stream FIRST (that is how every one of them is defined and how this interpreter
                # reads them): with the stream in a later position the value is used as the file object and the call raises
                from .report import DefiniteViolation
                raise DefiniteViolation("codec-call-shape", self.m.path.name, self.func.qualname, call,
                                        f"`{norm(call)}` passes the stream as argument {1 + next(i for i, a in enumerate(args) if self.is_stream(a))} of {f.attr}(): codec operations take the stream first, "
                                        "so the value is used as the file object and the call fails at run time (nothing of this record can be written / read)",
                                        construct=f"{self.func.qualname} stream position in {norm(f)}", props=("C01", "C02", "C06"))
            self.err(call, "call passes the stream to something that is not a recognised codec operation")
        return None

    def bytes_len(self, node):
        """Symbolic byte length of a bytes-valued expression written raw."""
        n = self.ev(node)
        ci = self.prog.const_int(self.m, ast.Call(func=N("len"), args=[n], keywords=[]), self.func.cls)
        if ci is not None:
            return C(ci)
        if isinstance(n, ast.Call) and norm(n.func) in ("bytes", "bytearray") and len(n.args) == 1 and not n.keywords \
                and self.prog.const_int(self.m, n.args[0], self.func.cls) is not None:
            return C(self.prog.const_int(self.m, n.args[0], self.func.cls))      # bytes(N): N zero bytes
        if isinstance(n, ast.BinOp) and isinstance(n.op, ast.Mult):
            for a, b in ((n.left, n.right), (n.right, n.left)):
                if isinstance(a, ast.Constant) and isinstance(a.value, bytes):
                    return simplify(ast.BinOp(left=C(len(a.value)), op=ast.Mult(), right=b), self.ctx)
        if isinstance(n, ast.Call) and isinstance(n.func, ast.Attribute) and isinstance(n.func.value, ast.Name):
            cod = self.prog.codec(self.m, n.func.value.id)
            if cod and n.func.attr == "pad":
                k = n.args[0] if n.args else C(1)
                return simplify(ast.BinOp(left=C(cod[1].itemsize), op=ast.Mult(), right=k), self.ctx)
            r = self.prog.resolve(self.m, n.func.value.id)
            if r and r[0] == "class" and r[1].name == "BTSString" and n.func.attr == "write" and n.args:
                return n.args[0]
        return ast.Call(func=N("len"), args=[n], keywords=[])

    # -- expression extraction (reader): replace stream ops inside an expression by placeholders ------
    def extract(self, expr, out, used=True):
        interp = self

        class X(ast.NodeTransformer):
            def visit_Call(self, node):
                t = interp.classify(node)
                if isinstance(t, tuple) and t[0] == "inline":
                    rv = interp.inline(t[1], t[2], out, *t[3:])
                    return rv if rv is not None else C(None)
                if t is not None:
                    if interp.side == "r" or isinstance(t, (Raw,)):
                        ph = interp.fresh()
                        t.ph = ph
                        if isinstance(t, Sub) and t.cls is not None:
                            interp.ph_class[ph] = t.cls
                        if isinstance(t, Field):
                            interp.ph_field[ph] = t
                    out.append(t)
                    return N(t.ph) if t.ph else C(None)
                self.generic_visit(node)
                return node

            def visit_ListComp(self, node):
                if not interp.mentions_stream(node):
                    return node
                if len(node.generators) != 1:
                    interp.err(node, "comprehension with several generators over the stream is not modelled")
                g = node.generators[0]
                if g.ifs:
                    interp.err(node, "filtered comprehension over the stream is not modelled")
                body = []
                # the iterable is evaluated first (its stream reads precede the element's)
                it_expr = interp.extract(g.iter, out) if interp.mentions_stream(g.iter) else g.iter
                saved = dict(interp.env)
                for n_ in ast.walk(g.target):
                    if isinstance(n_, ast.Name):
                        interp.env.pop(n_.id, None)
                elem = interp.extract(node.elt, body)
                interp.env = saved
                rep = interp.make_rep(g.target, it_expr, body, node)
                rep.listph = interp.fresh()
                rep.elem = elem
                out.append(rep)
                return N(rep.listph)

            visit_GeneratorExp = visit_ListComp

        e = X().visit(copy.deepcopy(expr))
        return self.ev(e)

    def make_rep(self, target, iter_, body, node):
        vars_ = [n.id for n in ast.walk(target) if isinstance(n, ast.Name)]
        it = self.ev(iter_)
        if isinstance(it, ast.Call) and norm(it.func) == "range":
            a = it.args
            if len(a) == 1:
                lo, hi = C(0), a[0]
            elif len(a) == 2:
                lo, hi = a
            else:
                self.err(node, "range with step is not modelled")
            return Rep(node=node, kind="range", lo=lo, hi=hi, vars=vars_, body=body)
        if isinstance(it, ast.Call) and norm(it.func) == "enumerate":
            self.err(node, "enumerate over a codec loop is not modelled")
        # rows of a decoded table (reader) or a collection (writer)
        if isinstance(it, ast.Name) and it.id.startswith("_R") and it.id.endswith("_"):
            return Rep(node=node, kind="rows", over=it, vars=vars_, body=body)
        return Rep(node=node, kind="coll", over=it, vars=vars_, body=body)

    def ctor_attrs(self, c):
        """attribute -> value expression of an object built by `Cls(args)` in this function (from the constructor summary)"""
        from . import facts
        try:
            summ = facts.init_summary(self.prog, c.cls)
        except AnalysisError:
            return None
        amap = {}
        for p_, a in zip(summ.params, c.args):
            amap[p_] = a
        for kname, a in c.kwargs.items():
            amap[kname] = a
        for p_ in summ.params:
            if p_ not in amap:
                if p_ in summ.defaults:
                    amap[p_] = summ.defaults[p_]
                else:
                    return None
        return {a: simplify(subst(e, amap), self.ctx) for a, e in summ.attrs.items()}

    def inline(self, h: FuncInfo, call: ast.Call, out, self_attrs=None):
        """Interpret helper h (a method of the same class, or a codec method of an object built here) in place of the call;
        returns the helper's returned expression."""
        params = h.params
        args = list(call.args)
        sub = Interp(self.prog, h, params[0] if params else self.stream, self.side)
        sub._inline_depth = getattr(self, "_inline_depth", 0) + 1
        sub.ph_class = self.ph_class
        sub.self_attrs = self_attrs
        env = {}
        # the stream parameter is renamed to the caller's stream expression by making the sub-interpreter use its own name
        for p_, a in zip(params[1:], args[1:]):
            env[p_] = self.ev(a)
        for k in call.keywords:
            if k.arg:
                env[k.arg] = self.ev(k.value)
        for p_, d in h.defaults().items():
            env.setdefault(p_, d)
        sub.env = env
        terms = sub.run()
        ret = None
        for t in terms:
            if isinstance(t, Ret):
                ret = t.value
            else:
                out.append(t)
        return ret

    # -- statements --------------------------------------------------------------------------------
    def run(self, body=None):
        body = self.func.node.body if body is None else body
        return self.block(body)

    def block(self, stmts):
        out = []
        for st in stmts:
            n0 = len(out)
            self.stmt(st, out)
            for t in walk_terms(out[n0:]):
                if getattr(t, "stmt", None) is None:
                    t.stmt = st
        return out

    def stmt(self, st, out):
        if isinstance(st, ast.Expr):
            v = st.value
            if isinstance(v, ast.Constant):
                return
            if isinstance(v, ast.IfExp) and self.mentions_stream(v):
                self.err(st, "conditional expression statement over the stream")
            if isinstance(v, ast.Call):
                t = self.classify(v)
                if isinstance(t, tuple) and t[0] == "inline":
                    self.inline(t[1], t[2], out, *t[3:])
                    return
                if t is not None:
                    if self.side == "r" or t.__class__ is Raw:
                        t.ph = self.fresh()
                    if hasattr(t, "used"):
                        t.used = False
                    out.append(t)
                    return
                # <local object>.<attr>.extend(E): the whole decoded list goes into the (still empty) container attribute
                if isinstance(v.func, ast.Attribute) and v.func.attr == "extend" and isinstance(v.func.value, ast.Attribute) and isinstance(v.func.value.value, ast.Name) \
                        and v.func.value.value.id in self.env and len(v.args) == 1 and not v.keywords and not self.is_stream(v.func.value.value):
                    arg = self.extract(v.args[0], out) if self.mentions_stream(v.args[0]) else self.ev(v.args[0])
                    out.append(CallOn(node=st, var=v.func.value.value.id, meth="__extend__:" + v.func.value.attr, args=[arg], kwargs={}))
                    return
                # <local object>.<attr>.append(E): the decoder fills a container attribute of the object it is building
                if isinstance(v.func, ast.Attribute) and v.func.attr == "append" and isinstance(v.func.value, ast.Attribute) and isinstance(v.func.value.value, ast.Name) \
                        and v.func.value.value.id in self.env and len(v.args) == 1 and not v.keywords and not self.is_stream(v.func.value.value):
                    arg = self.extract(v.args[0], out) if self.mentions_stream(v.args[0]) else self.ev(v.args[0])
                    out.append(CallOn(node=st, var=v.func.value.value.id, meth="__append__:" + v.func.value.attr, args=[arg], kwargs={}))
                    return
                # method call on a local object (reader: d.addSignal(...)); arguments that read the stream are decoded first
                if isinstance(v.func, ast.Attribute) and isinstance(v.func.value, ast.Name) and not self.is_stream(v.func.value) \
                        and not any(self.is_stream(a) for a in list(v.args) + [k.value for k in v.keywords]) \
                        and (not self.mentions_stream(v) or v.func.value.id in self.env):
                    args = [self.extract(a, out) if self.mentions_stream(a) else self.ev(a) for a in v.args]
                    kwargs = {k.arg: (self.extract(k.value, out) if self.mentions_stream(k.value) else self.ev(k.value)) for k in v.keywords if k.arg}
                    out.append(CallOn(node=st, var=v.func.value.id, meth=v.func.attr, args=args, kwargs=kwargs))
                    return
                if self.mentions_stream(v):
                    # e.g. np.array(f32.bread(..)) as a statement
                    self.extract(v, out, used=False)
                    return
                if isinstance(v.func, ast.Attribute) and norm(v.func) == "super().__init__":
                    return
                return
            return
        if isinstance(st, (ast.Assign, ast.AnnAssign)):
            targets = st.targets if isinstance(st, ast.Assign) else [st.target]
            value = st.value
            if value is None:
                return
            if len(targets) != 1:
                if self.mentions_stream(st):
                    self.err(st, "chained assignment over the stream")
                v = self.ev(value)
                for t in targets:
                    if isinstance(t, ast.Name):
                        self.env[t.id] = v
                return
            self.assign(targets[0], value, st, out)
            return
        if isinstance(st, ast.AugAssign) and isinstance(st.op, ast.Add) and isinstance(st.target, ast.Attribute) and isinstance(st.target.value, ast.Name) \
                and st.target.value.id in self.env and not self.is_stream(st.target.value):
            # obj.attr += E  on an object built here: extend
            arg = self.extract(st.value, out) if self.mentions_stream(st.value) else self.ev(st.value)
            out.append(CallOn(node=st, var=st.target.value.id, meth="__extend__:" + st.target.attr, args=[arg], kwargs={}))
            return
        if isinstance(st, ast.AugAssign):
            if self.mentions_stream(st):
                if isinstance(st.target, ast.Name) and not self.mentions_stream(st.target):
                    # x op= <stream read>  is  x = x op <stream read>
                    cur = ast.Name(id=st.target.id, ctx=ast.Load())
                    self.assign(st.target, ast.BinOp(left=cur, op=st.op, right=st.value), st, out)
                    return
                self.err(st, "augmented assignment over the stream")
            if isinstance(st.target, ast.Name):
                cur = self.env.get(st.target.id, N(st.target.id))
                self.env[st.target.id] = self.ev(ast.BinOp(left=cur, op=st.op, right=st.value))
            elif isinstance(st.target, ast.Subscript) and isinstance(st.target.value, ast.Name):
                out.append(Store(node=st, name=st.target.value.id, index=self.ev(st.target.slice), value=self.ev(st.value)))
            return
        if isinstance(st, ast.For):
            if st.orelse:
                self.err(st, "for/else is not modelled")
            st = self.rows_by_name(st)
            saved = dict(self.env)
            for n_ in ast.walk(st.target):
                if isinstance(n_, ast.Name):
                    self.env.pop(n_.id, None)
            # loop variables that rebind names keep the loop-local meaning inside the body only
            it_saved_env = dict(self.env)
            self.env = saved
            rep = self.make_rep(st.target, st.iter, [], st)
            self.env = it_saved_env
            rep.body = self.block(st.body)
            # names assigned in the loop body do not survive symbolically (except accumulators we do not need)
            assigned = {n.id for s in st.body for n in ast.walk(s) if isinstance(n, ast.Name) and isinstance(n.ctx, ast.Store)}
            for k in list(self.env):
                if k in assigned or k in rep.vars:
                    if k in saved:
                        self.env[k] = saved[k]
                    else:
                        self.env.pop(k, None)
            out.append(rep)
            return
        if isinstance(st, ast.If):
            cond = self.ev(st.test)
            env0 = dict(self.env)
            then = self.block(st.body)
            env_then = self.env
            self.env = dict(env0)
            orelse = self.block(st.orelse)
            env_else = self.env
            t_fail = bool(then) and isinstance(then[-1], Fail)
            e_fail = bool(orelse) and isinstance(orelse[-1], Fail)
            if t_fail and not e_fail:
                self.env = env_else
            elif e_fail and not t_fail:
                self.env = env_then
            else:
                merged = {}
                for k in set(env_then) | set(env_else):
                    a, b = env_then.get(k), env_else.get(k)
                    if a is None or b is None:
                        v = a if a is not None else b
                        merged[k] = v
                    elif norm(a) == norm(b):
                        merged[k] = a
                    else:
                        merged[k] = ast.IfExp(test=cond, body=a, orelse=b)
                self.env = merged
            out.append(Alt(node=st, cond=cond, then=then, orelse=orelse))
            return
        if isinstance(st, ast.Raise):
            exc = ""
            if st.exc is not None:
                e = st.exc.func if isinstance(st.exc, ast.Call) else st.exc
                exc = norm(e)
            out.append(Fail(node=st, exc=exc))
            return
        if isinstance(st, ast.Return):
            if st.value is None:
                out.append(Ret(node=st, value=None))
                return
            v = st.value
            if isinstance(v, ast.Call) and isinstance(v.func, ast.Name):
                k = self.prog.resolve_class(self.m, v.func.id)
                if k is not None and not self.prog.is_enum(k):
                    c = self.construct(None, k, v, st, out)
                    out.append(Ret(node=st, value=N(c.ph)))
                    return
            if self.mentions_stream(v):
                e = self.extract(v, out)
                out.append(Ret(node=st, value=e))
                return
            out.append(Ret(node=st, value=self.ev(v)))
            return
        if isinstance(st, ast.Pass):
            return
        if isinstance(st, ast.With):
            # with path.open('wb') as f:  (Tdf.new)
            if len(st.items) == 1 and st.items[0].optional_vars is not None and norm(st.items[0].optional_vars) == self.stream:
                out.extend(self.block(st.body))
                return
            if self.mentions_stream(st):
                self.err(st, "with statement over the stream")
            out.extend(self.block(st.body))
            return
        if isinstance(st, (ast.Try,)):
            if self.mentions_stream(st):
                self.err(st, "try statement in a codec method")
            return
        if isinstance(st, ast.Assert):
            # an assertion that only asks the stream for its position neither reads nor writes
            calls = [c for c in ast.walk(st) if isinstance(c, ast.Call) and self.mentions_stream(c)]
            if all(isinstance(c.func, ast.Attribute) and self.is_stream(c.func.value) and c.func.attr in ("tell", "seekable", "writable", "readable") and not c.args for c in calls):
                return
        if isinstance(st, (ast.Import, ast.ImportFrom, ast.Global, ast.Nonlocal, ast.Assert, ast.Delete)):
            if self.mentions_stream(st):
                self.err(st, "unmodelled statement over the stream")
            return
        if self.mentions_stream(st):
            self.err(st, "unmodelled statement over the stream")

    def rows_by_name(self, st: ast.For):
        """for row in <decoded structured table>: .. row['field'] ..   ->   for f1, f2 in <table>: .. f1 ..   (fields in dtype order)"""
        # for a, b in zip(table['f1'], table['f2']) with (f1, f2) all the fields of the table in order  ->  for a, b in table
        zi = st.iter
        if isinstance(zi, ast.Call) and norm(zi.func) == "zip" and zi.args and not zi.keywords and isinstance(st.target, ast.Tuple) \
                and all(isinstance(a, ast.Subscript) and isinstance(a.slice, ast.Constant) and isinstance(a.slice.value, str) for a in zi.args) \
                and len({norm(a.value) for a in zi.args}) == 1:
            base = self.ev(zi.args[0].value)
            fld0 = self.ph_field.get(base.id) if isinstance(base, ast.Name) else None
            if fld0 is not None and fld0.dt.kind == "V" and [f[0] if isinstance(f, (tuple, list)) else f for f in fld0.dt.fields] == [a.slice.value for a in zi.args]:
                return ast.copy_location(ast.For(target=st.target, iter=zi.args[0].value, body=st.body, orelse=[], type_comment=None), st)
        if not isinstance(st.target, ast.Name):
            return st
        it = self.ev(st.iter)
        fld = self.ph_field.get(it.id) if isinstance(it, ast.Name) else None
        if fld is None or fld.dt.kind != "V" or not fld.dt.fields:
            return st
        names = [f[0] if isinstance(f, (tuple, list)) else f for f in fld.dt.fields]
        row = st.target.id
        uses = [n for s_ in st.body for n in ast.walk(s_) if isinstance(n, ast.Name) and n.id == row]
        subs = [n for s_ in st.body for n in ast.walk(s_) if isinstance(n, ast.Subscript) and isinstance(n.value, ast.Name) and n.value.id == row and isinstance(n.slice, ast.Constant)
                and (n.slice.value in names or (isinstance(n.slice.value, int) and 0 <= n.slice.value < len(names)))]
        if not subs or len(subs) != len(uses):
            return st
        new_names = [f"{row}__{nm}" for nm in names]

        class R(ast.NodeTransformer):
            def visit_Subscript(self, n):
                if isinstance(n.value, ast.Name) and n.value.id == row and isinstance(n.slice, ast.Constant):
                    k = names.index(n.slice.value) if n.slice.value in names else n.slice.value
                    return ast.copy_location(ast.Name(id=new_names[k], ctx=ast.Load()), n)
                self.generic_visit(n)
                return n

        body = [R().visit(copy.deepcopy(s_)) for s_ in st.body]
        tgt = ast.Tuple(elts=[ast.Name(id=nm, ctx=ast.Store()) for nm in new_names], ctx=ast.Store())
        return ast.copy_location(ast.For(target=tgt, iter=st.iter, body=body, orelse=[], type_comment=None), st)

    def construct(self, var, k: ClassInfo, call: ast.Call, st, out):
        args = [self.extract(a, out) if self.mentions_stream(a) else self.ev(a) for a in call.args]
        kwargs = {}
        for kw in call.keywords:
            if kw.arg:
                kwargs[kw.arg] = self.extract(kw.value, out) if self.mentions_stream(kw.value) else self.ev(kw.value)
        c = Construct(node=st, var=var, cls=k, args=args, kwargs=kwargs, ph=self.fresh())
        self.ph_class[c.ph] = k
        self.constructs[c.ph] = c
        out.append(c)
        return c

    def assign(self, target, value, st, out):
        # tuple unpacking
        if isinstance(target, (ast.Tuple, ast.List)):
            if self.mentions_stream(value):
                n0 = len(out)
                e = self.extract(value, out)
                new = [t for t in out[n0:] if isinstance(t, Field)]
                if len(new) == 1 and new[0].count is None and new[0].dt.kind == "V" and len(new[0].dt.fields) == len(target.elts) and isinstance(e, ast.Name):
                    for i, t in enumerate(target.elts):
                        if isinstance(t, ast.Name):
                            self.env[t.id] = ast.Subscript(value=e, slice=C(i), ctx=ast.Load())
                    return
                self.err(st, "tuple assignment from the stream")
            v = self.ev(value)
            if isinstance(v, (ast.Tuple, ast.List)) and len(v.elts) == len(target.elts):
                for t, e in zip(target.elts, v.elts):
                    if isinstance(t, ast.Name):
                        self.env[t.id] = e
            else:
                for i, t in enumerate(target.elts):
                    if isinstance(t, ast.Name):
                        self.env[t.id] = ast.Subscript(value=v, slice=C(i), ctx=ast.Load())
            return
        if isinstance(target, ast.Name):
            # constructor of a repo class
            if isinstance(value, ast.Call) and isinstance(value.func, ast.Name):
                k = self.prog.resolve_class(self.m, value.func.id)
                if k is not None and not self.prog.is_enum(k) and value.func.id not in self.env:
                    c = self.construct(target.id, k, value, st, out)
                    self.env[target.id] = N(c.ph)
                    return
            if self.mentions_stream(value):
                e = self.extract(value, out)
                self.env[target.id] = e
                return
            v = self.ev(value)
            # buffer allocation
            if isinstance(v, ast.Call) and norm(v.func) in ("np.empty", "np.zeros", "np.ones", "np.full", "np.empty_like", "np.zeros_like", "np.full_like"):
                kw = {k.arg: k.value for k in v.keywords if k.arg}
                fill = None
                if norm(v.func).startswith("np.full"):
                    fill = v.args[1] if len(v.args) > 1 else kw.get("fill_value")
                out.append(Alloc(node=st, name=target.id, func=norm(v.func), length=v.args[0] if v.args else None,
                                 dtype=kw.get("dtype") or (v.args[1] if len(v.args) > 1 and not norm(v.func).startswith("np.full") else (v.args[2] if len(v.args) > 2 else None)), fill=fill))
                # keep the name opaque (it is a buffer identity, not a value)
                self.env.pop(target.id, None)
                return
            self.env[target.id] = v
            out.append(Bind(node=st, name=target.id, value=v))
            return
        if isinstance(target, ast.Attribute) and isinstance(target.value, ast.Name):
            if self.mentions_stream(value):
                e = self.extract(value, out)
            else:
                e = self.ev(value)
            out.append(Install(node=st, var=target.value.id, attr=target.attr, value=e))
            return
        if isinstance(target, ast.Subscript) and isinstance(target.value, ast.Name):
            name = target.value.id
            idx = self.ev(target.slice)
            if self.mentions_stream(value):
                e = self.extract(value, out)
            else:
                e = self.ev(value)
            if isinstance(target.slice, ast.Slice) and target.slice.lower is None and target.slice.upper is None and target.slice.step is None:
                out.append(Fill(node=st, name=name, value=e))
            else:
                out.append(Store(node=st, name=name, index=idx, value=e))
            return
        if self.mentions_stream(st):
            self.err(st, "unmodelled assignment over the stream")


# ------------------------------------------------------------------------------------ units
@dataclass
class Unit:
    """A codec unit: a class (or the file header) with a writer, a reader and optionally nBytes."""
    name: str
    cls: ClassInfo | None
    writer: FuncInfo | None
    reader: FuncInfo | None
    wstream: str = ""
    rstream: str = ""
    wterms: list = None
    rterms: list = None
    winterp: Interp = None
    rinterp: Interp = None
    error: str = None


def stream_param(f: FuncInfo, side: str) -> str:
    a = f.node.args
    names = [x.arg for x in a.posonlyargs + a.args]
    if f.kind in ("method", "getter", "setter", "classmethod"):
        names = names[1:]
    if not names:
        raise AnalysisError(f"{f.module.name}.{f.qualname}: no stream parameter")
    return names[0]


def find_units(prog: Program):
    """Every class with a writer (_write / bwrite(self, stream)) and a reader (_build / bread)."""
    units = []
    for m in prog.modules.values():
        for c in m.classes.values():
            for wn, rn in (("_write", "_build"), ("bwrite", "bread")):
                w, r = c.get(wn), c.get(rn)
                if w is None or r is None:
                    continue
                if c.name in ("TdfType", "BTSString", "BTSDate"):
                    continue
                if w.kind != "method" or r.kind not in ("static", "classmethod"):
                    continue
                # skip stubs: bodies that only raise / pass / return a constant
                if _is_stub(w) and _is_stub(r):
                    continue
                if r.node.args.vararg is not None and not (r.node.args.args):
                    continue
                units.append(Unit(name=c.name, cls=c, writer=w, reader=r))
    return units


def _is_stub(f: FuncInfo):
    body = [s for s in f.node.body if not (isinstance(s, ast.Expr) and isinstance(s.value, ast.Constant))]
    if not body:
        return True
    if len(body) == 1 and isinstance(body[0], (ast.Pass, ast.Raise)):
        return True
    if len(body) == 1 and isinstance(body[0], ast.Return):
        v = body[0].value
        if v is None or isinstance(v, ast.Constant):
            return True
        if isinstance(v, ast.Call) and not v.args and not v.keywords:
            return True
    return False


def interpret_unit(prog: Program, u: Unit, strict=False):
    """Interpret writer and reader. An unmodelled statement does not abort the whole run: the error is kept on the unit
    (u.error) and raised when a rule needs that unit."""
    if u.wterms is not None:
        return u
    u.error = None
    u.wterms, u.rterms = [], []
    try:
        u.wstream = stream_param(u.writer, "w")
        u.rstream = stream_param(u.reader, "r")
        wi = Interp(prog, u.writer, u.wstream, "w")
        u.winterp = wi
        u.wterms = wi.run()
        ri = Interp(prog, u.reader, u.rstream, "r")
        u.rinterp = ri
        u.rterms = ri.run()
    except AnalysisError as e:
        if strict:
            raise
        u.error = str(e)
        u.error_exc = e
    return u


def header_unit(prog: Program):
    """File header + empty table: Tdf.new (writer, stream `f`) vs Tdf.__enter__ (reader, self.handler)."""
    tdf = prog.need_cls("Tdf", "basictdf")
    new = prog.need_method(tdf, "new")
    enter = prog.need_method(tdf, "__enter__")
    # stream name of `new`: the `with ... as <name>` target
    wname = None
    for n in ast.walk(new.node):
        if isinstance(n, ast.With) and n.items and n.items[0].optional_vars is not None:
            ce = n.items[0].context_expr
            if isinstance(ce, ast.Call) and isinstance(ce.func, ast.Attribute) and ce.func.attr == "open":
                wname = norm(n.items[0].optional_vars)
    if wname is None:
        raise AnalysisError("Tdf.new: no `with <path>.open(...) as f` found")
    u = Unit(name="TdfHeader", cls=tdf, writer=new, reader=enter, wstream=wname)
    wi = Interp(prog, new, wname, "w")
    u.wterms = wi.run()
    u.winterp = wi
    # reader stream: attribute assigned from .open( in __enter__
    rname = None
    for n in ast.walk(enter.node):
        if isinstance(n, (ast.Assign, ast.AnnAssign)):
            v = n.value
            t = n.targets[0] if isinstance(n, ast.Assign) else n.target
            if isinstance(v, ast.Call) and isinstance(v.func, ast.Attribute) and v.func.attr == "open":
                rname = norm(t)
    if rname is None:
        raise AnalysisError("Tdf.__enter__: handle is not opened by an assignment from .open(...)")
    u.rstream = rname
    ri = Interp(prog, enter, rname, "r")
    u.rterms = ri.run()
    u.rinterp = ri
    return u
