"""Byte-size polynomials: bytes(E2(writer)) and poly(nBytes)  (DESIGN C02, engine E3)."""
from __future__ import annotations

import ast
import re

from . import facts
from .index import ClassInfo, Program, is_self_attr
from .layout import Alt, Date, Fail, Field, Raw, Rep, Str, Sub, Unit, has_stream
from .poly import Poly
from .report import AnalysisError, norm
from .sym import C, N, Ctx, apply_equiv, canon, simplify, subst, to_poly
from .unify import GuardFail, Unifier, is_self, negate, normalise


def sigma(coll: str, depth: int, p: Poly) -> Poly:
    """Sum over `_depth` in coll of polynomial p: monomials free of the bound variable factor out as len(coll)."""
    var = re.compile(rf"\b_{depth}\b")
    out = Poly()
    for mono, coef in p.t.items():
        dep = tuple(a for a in mono if var.search(a))
        free = tuple(a for a in mono if not var.search(a))
        base = Poly({free: coef})
        if dep:
            out = out + base * Poly.atom(f"SUM[{coll};_{depth}]({'*'.join(dep)})")
        else:
            out = out + base * Poly.atom(f"len({coll})") if not coll.startswith("range(") else out + base * _range_len(coll)
    return out


_RANGE_POLYS = {}


def _range_len(coll):
    return _RANGE_POLYS[coll]


class SizeCtx:
    def __init__(self, prog: Program, un: Unifier, cd):
        self.prog = prog
        self.un = un
        self.cd = cd
        self.ctx = un.ctx
        self.nbytes_equiv = []  # (canonical base expr with _k vars, bytes per element)
        self.sub_class = {}  # canon(recv) -> ClassInfo

    def guard_text(self, cond):
        """canonical text of a guard: conditions over the block format are named by the accepted formats they select"""
        fc = self.un.format_canon(cond)
        return fc if fc is not None else canon(cond, self.ctx)

    def class_const_nbytes(self, k: ClassInfo):
        if k is None:
            return None
        ca = self.prog.class_attr(k, "nBytes")
        if ca is not None:
            return self.prog.const_int(ca[0].module, ca[1], ca[0])
        # instance attribute assigned a constant in __init__ (TdfEntry)
        if self.prog.lookup_method(k, "nBytes", "getter") is None:
            summ = facts.init_summary(self.prog, k)
            v = summ.attrs.get("nBytes")
            if v is not None:
                return self.prog.const_int(k.module, v, k)
        return None


# ------------------------------------------------------------------------------ writer bytes
def writer_bytes(sc: SizeCtx, u: Unit) -> Poly:
    un = sc.un
    W = normalise(u.wterms, "w")
    # pairing writer Sub -> reader class (from the unifier's bindings)
    for w, r, args, kwargs in un.sub_args:
        if r.cls is not None and w.recv is not None:
            sc.sub_class[norm(w.recv)] = r.cls
    return _wb(sc, W, {}, 0)


def _ren(expr, ren):
    return subst(expr, ren) if expr is not None and ren else expr


def _wb(sc: SizeCtx, terms, ren, depth) -> Poly:
    un = sc.un
    total = Poly()
    for t in terms:
        if isinstance(t, Field):
            total = total + _field_bytes(sc, t, ren)
        elif isinstance(t, Str):
            p = to_poly(t.width, un.ctx)
            total = total + p
        elif isinstance(t, Date):
            total = total + 4
        elif isinstance(t, Raw):
            total = total + to_poly(_ren(t.nbytes, ren), un.ctx)
        elif isinstance(t, Sub):
            k = sc.sub_class.get(norm(t.recv)) if t.recv is not None else t.cls
            c = sc.class_const_nbytes(k)
            if c is not None:
                total = total + c
            else:
                total = total + Poly.atom(canon(ast.Attribute(value=_ren(t.recv, ren), attr="nBytes", ctx=ast.Load()), un.ctx))
        elif isinstance(t, Rep):
            d = depth + 1
            saved = dict(un.wvars)
            for v in t.vars:
                un.wvars[v] = t
            r2 = dict(ren)
            if len(t.vars) == 1:
                r2[t.vars[0]] = N(f"_{d}")
            body = _wb(sc, t.body, r2, d)
            un.wvars = saved
            if t.kind == "coll":
                coll = canon(_ren(t.over, ren), un.ctx)
                total = total + sigma(coll, d, body)
            elif t.kind == "range":
                lo, hi = _ren(t.lo, ren), _ren(t.hi, ren)
                n = to_poly(ast.BinOp(left=hi, op=ast.Sub(), right=lo), un.ctx)
                coll = f"range({canon(lo, un.ctx)}, {canon(hi, un.ctx)})"
                _RANGE_POLYS[coll] = n
                total = total + sigma(coll, d, body)
            else:
                raise AnalysisError(f"{sc.un.u.name}: writer loop kind {t.kind}")
        elif isinstance(t, Alt):
            a = _wb(sc, t.then, ren, depth)
            b = _wb(sc, t.orelse, ren, depth)
            g = Poly.atom("[" + sc.guard_text(_ren(t.cond, ren)) + "]")
            total = total + b + g * (a - b)
        elif isinstance(t, (GuardFail, Fail)):
            pass
    return total


def _field_bytes(sc: SizeCtx, f: Field, ren) -> Poly:
    un = sc.un
    dt = f.dt
    if f.role in ("pad", "skip"):
        n = to_poly(_ren(f.count, ren), un.ctx) if f.count is not None else Poly.const(1)
        return n * dt.itemsize
    k = un.value_kind(f.value, f)
    if k[0] == "scalar":
        if dt.kind == "V":
            raise AnalysisError(f"{un.u.name}: scalar written with structured codec {f.codec}")
        return Poly.const(dt.size)
    if k[0] == "fixed":
        return Poly.const(dt.itemsize)
    if k[0] == "seq":
        n = to_poly(_ren(k[1], ren), un.ctx)
        per = dt.size if (dt.kind != "V" and dt.nscalars == 1) else dt.itemsize
        base = _ren(f.value, ren)
        sc.nbytes_equiv.append((canon(base, un.ctx), per))
        return n * per
    if k[0] == "rows":
        return to_poly(_ren(k[1], ren), un.ctx) * dt.itemsize
    if k[0] == "grid":
        return to_poly(_ren(k[1], ren), un.ctx) * dt.size
    raise AnalysisError(f"{un.u.name}: cannot size `{norm(f.value)}`")


# ------------------------------------------------------------------------------ nBytes evaluation
class SizeEval:
    """Symbolic evaluation of an nBytes property body into a Poly."""

    def __init__(self, sc: SizeCtx, cls: ClassInfo, func):
        self.sc = sc
        self.cls = cls
        self.f = func
        self.ctx = sc.ctx
        self.env = {}  # local name -> Poly | ast (non-numeric alias)
        self.ren = {}  # bound variable -> _k
        self.depth = 0

    def fail(self, node, why):
        raise AnalysisError(f"{self.f.module.name}.{self.f.qualname} line {getattr(node, 'lineno', '?')}: nBytes: {why}: `{norm(node)}`")

    def unbound(self, name, st):
        """an accumulator that nothing in the function ever binds before it is added to: the size computation raises
        UnboundLocalError for every object - a definite violation of the size identity, not an unmodelled spelling"""
        binds = [n for n in ast.walk(self.f.node) if isinstance(n, ast.Name) and n.id == name and isinstance(n.ctx, ast.Store)
                 and not any(isinstance(p, ast.AugAssign) and p.target is n for p in ast.walk(self.f.node))]
        params = {a.arg for a in self.f.node.args.args + self.f.node.args.kwonlyargs}
        if not binds and name not in params:
            from .report import DefiniteViolation
            raise DefiniteViolation("size-identity", self.f.module.path.name, self.f.qualname, st,
                                    f"`{name}` is added to without ever being initialised in {self.f.qualname}: the declared size raises UnboundLocalError instead of giving the number of bytes written",
                                    construct=f"{self.f.qualname} accumulator {name} never initialised", props=("C02", "C03", "C09"))

    def expr_ast(self, node):
        """substitute aliases (ast valued) and bound-variable renames"""
        env = {k: v for k, v in self.env.items() if isinstance(v, ast.AST)}
        env.update(self.ren)
        return simplify(subst(node, env), self.ctx)

    def P(self, node) -> Poly:
        if isinstance(node, ast.Name) and isinstance(self.env.get(node.id), Poly):
            return self.env[node.id]
        ci = self.ctx.const_int(node)
        if ci is not None:
            return Poly.const(ci)
        if isinstance(node, ast.BinOp):
            a, b = self.P(node.left), self.P(node.right)
            if isinstance(node.op, ast.Add):
                return a + b
            if isinstance(node.op, ast.Sub):
                return a - b
            if isinstance(node.op, ast.Mult):
                return a * b
            self.fail(node, "operator not modelled")
        if isinstance(node, ast.UnaryOp) and isinstance(node.op, ast.USub):
            return -self.P(node.operand)
        if isinstance(node, ast.IfExp):
            a, b = self.P(node.body), self.P(node.orelse)
            g = Poly.atom("[" + self.sc.guard_text(self.expr_ast(node.test)) + "]")
            return b + g * (a - b)
        if isinstance(node, ast.Call) and norm(node.func) == "sum" and len(node.args) == 1 and isinstance(node.args[0], (ast.GeneratorExp, ast.ListComp)):
            return self.comp(node.args[0], 0)
        if isinstance(node, ast.Attribute) and node.attr in ("nBytes", "nbytes"):
            return self.nbytes_of(node)
        # <codec>.nBytes(n) = itemsize * n   (n may itself be a sum over runs)
        if isinstance(node, ast.Call) and isinstance(node.func, ast.Attribute) and node.func.attr == "nBytes" and isinstance(node.func.value, ast.Name) \
                and len(node.args) <= 1 and not node.keywords:
            cod = self.sc.prog.codec(self.f.module, node.func.value.id)
            if cod is not None:
                return (self.P(node.args[0]) if node.args else Poly.const(1)) * cod[1].itemsize
        e = self.expr_ast(node)
        ci = self.ctx.const_int(e)
        if ci is not None:
            return Poly.const(ci)
        p = to_poly(e, self.ctx)
        return p

    def nbytes_of(self, node: ast.Attribute) -> Poly:
        base = self.expr_ast(node.value)
        bc = canon(base, self.ctx)
        if node.attr == "nbytes":
            # `<arr>.nbytes == width * len(<arr>)` only for an array of the codec's element width: when the constructor decides what
            # self.<attr> holds, every arm of that decision must coerce to (or test for) a dtype; an arm that keeps the caller's
            # array as it is leaves the width open and the size stays an opaque atom (which then cannot equal the bytes written)
            if is_self(base) and isinstance(base, ast.Attribute):
                summ = facts.init_summary(self.sc.prog, self.cls)
                v = summ.attrs.get(base.attr)
                if v is not None:
                    for conds, leaf in facts.split_ifexp(v):
                        coerced = isinstance(leaf, ast.Call) and (any(k.arg == "dtype" for k in leaf.keywords) or (isinstance(leaf.func, ast.Attribute) and leaf.func.attr == "astype"))
                        tested = any(pol and isinstance(t, (ast.Compare, ast.BoolOp)) and ".dtype" in norm(t) for t, pol in facts.flat_facts(conds))
                        if not coerced and not tested and any(isinstance(x, ast.Name) and x.id in summ.params for x in ast.walk(leaf)):
                            return Poly.atom(bc + ".nbytes")
            for b, per in self.sc.nbytes_equiv:
                if b == bc:
                    self.sc.un.assume(f"{self.cls.name}: `{bc}.nbytes == {per}*len({bc})` (cells have the element width of the codec they are written with)")
                    return Poly.atom(canon(ast.Call(func=N("len"), args=[base], keywords=[]), self.ctx)) * per
            return Poly.atom(bc + ".nbytes")
        # element of a typed container / sub-object with class-constant size
        k = self.sc.sub_class.get(norm(base))
        if k is None and isinstance(base, ast.Name) and base.id.startswith("_"):
            k = self.elem_class.get(base.id) if hasattr(self, "elem_class") else None
        if k is None and isinstance(base, ast.Name):
            r = self.sc.prog.resolve(self.f.module, base.id)
            if r and r[0] == "class":
                k = r[1]
        c = self.sc.class_const_nbytes(k)
        if c is not None:
            return Poly.const(c)
        return Poly.atom(canon(ast.Attribute(value=base, attr="nBytes", ctx=ast.Load()), self.ctx))

    def comp(self, g, i) -> Poly:
        gens = g.generators
        if i == len(gens):
            return self.P(g.elt)
        gen = gens[i]
        if not isinstance(gen.target, ast.Name):
            self.fail(g, "comprehension target")
        return self.loop(gen.target.id, gen.iter, lambda: self._comp_body(g, i, gen))

    def _comp_body(self, g, i, gen):
        inner = self.comp(g, i + 1)
        for c in gen.ifs:
            inner = inner * Poly.atom("[" + self.sc.guard_text(self.expr_ast(c)) + "]")
        return inner

    def with_loop(self, var, iter_, body_fn):
        """Run body_fn with `var` renamed to the bound variable of this nesting depth; returns (coll, depth, result)."""
        self.depth += 1
        d = self.depth
        it = self.expr_ast(iter_)
        saved = self.ren.get(var)
        self.ren[var] = N(f"_{d}")
        if not hasattr(self, "elem_class"):
            self.elem_class = {}
        if is_self(it) and isinstance(it, ast.Attribute):
            self.elem_class[f"_{d}"] = facts.element_class(self.sc.prog, self.cls, it.attr)
        try:
            body = body_fn()
        finally:
            if saved is None:
                self.ren.pop(var, None)
            else:
                self.ren[var] = saved
            self.depth -= 1
        if isinstance(it, ast.Call) and norm(it.func) == "range":
            a = it.args
            lo, hi = (C(0), a[0]) if len(a) == 1 else (a[0], a[1])
            coll = f"range({canon(lo, self.ctx)}, {canon(hi, self.ctx)})"
            _RANGE_POLYS[coll] = to_poly(ast.BinOp(left=hi, op=ast.Sub(), right=lo), self.ctx)
        else:
            coll = canon(it, self.ctx)
        return coll, d, body

    def loop(self, var, iter_, body_fn) -> Poly:
        coll, d, body = self.with_loop(var, iter_, body_fn)
        return sigma(coll, d, body)

    def run(self) -> Poly:
        r = self.block(self.f.node.body, Poly.const(1))
        if r is None:
            self.fail(self.f.node, "no return value")
        return r

    def block(self, stmts, guard: Poly):
        for st in stmts:
            if isinstance(st, ast.Expr) and isinstance(st.value, ast.Constant):
                continue
            if isinstance(st, ast.Pass):
                continue
            if isinstance(st, ast.Assign) and len(st.targets) == 1:
                t = st.targets[0]
                if isinstance(t, ast.Name):
                    self.assign(t.id, st.value, guard, st)
                    continue
                if isinstance(t, ast.Tuple):
                    v = self.expr_ast(st.value)
                    for i, e in enumerate(t.elts):
                        if isinstance(e, ast.Name):
                            self.env[e.id] = v.elts[i] if isinstance(v, ast.Tuple) and len(v.elts) == len(t.elts) else ast.Subscript(value=v, slice=C(i), ctx=ast.Load())
                    continue
                if isinstance(t, ast.Attribute) and is_self(t) or (isinstance(t, ast.Subscript) and is_self(t.value)):
                    from .report import DefiniteViolation
                    raise DefiniteViolation("no-stale-derived-state", self.f.module.path.name, self.f.qualname, st,
                                            f"the size computation stores into the object (`{norm(t)}`): a size kept in a mutable block goes stale when its items are edited in place "
                                            "and then no longer equals the bytes written",
                                            construct=f"{self.f.qualname} memoises in self", props=("C02", "C03", "C09"))
                self.fail(st, "assignment target")
            if isinstance(st, ast.AugAssign) and isinstance(st.target, ast.Name) and isinstance(st.op, (ast.Add, ast.Sub)):
                cur = self.env.get(st.target.id)
                if not isinstance(cur, Poly):
                    self.unbound(st.target.id, st)
                    self.fail(st, "accumulator not initialised")
                delta = self.P(st.value) * guard
                self.env[st.target.id] = cur + delta if isinstance(st.op, ast.Add) else cur - delta
                continue
            if isinstance(st, ast.For) and isinstance(st.target, ast.Name) and not st.orelse:
                accs = sorted({n.target.id for n in ast.walk(st) if isinstance(n, ast.AugAssign) and isinstance(n.target, ast.Name)})
                before = {a: self.env.get(a) for a in accs}
                for a in accs:
                    if not isinstance(before[a], Poly):
                        self.unbound(a, st)
                        self.fail(st, f"accumulator {a} not initialised before the loop")
                saved_env = dict(self.env)
                deltas = {}

                def run_body():
                    for a in accs:
                        self.env[a] = Poly()
                    if self.block(st.body, Poly.const(1)) is not None:
                        self.fail(st, "return inside loop")
                    for a in accs:
                        deltas[a] = self.env[a]
                    return None

                coll, d, _ = self.with_loop(st.target.id, st.iter, run_body)
                self.env = saved_env
                for a in accs:
                    self.env[a] = before[a] + sigma(coll, d, deltas[a]) * guard
                continue
            if isinstance(st, ast.If):
                c = self.sc.guard_text(self.expr_ast(st.test))
                g1 = guard * Poly.atom("[" + c + "]")
                r1 = self.block(st.body, g1)
                if st.orelse:
                    g2 = guard * (Poly.const(1) - Poly.atom("[" + c + "]"))
                    r2 = self.block(st.orelse, g2)
                else:
                    r2 = None
                if r1 is not None or r2 is not None:
                    self.fail(st, "return inside a branch")
                continue
            if isinstance(st, ast.Return):
                if st.value is None:
                    self.fail(st, "bare return")
                return self.P(st.value)
            self.fail(st, "statement kind not modelled")
        return None

    def assign(self, name, value, guard, st):
        if not guard.is_const() or guard.const_value() != 1:
            # conditional (re)definition: treat as numeric with guard
            newv = self.P(value)
            cur = self.env.get(name)
            if isinstance(cur, Poly):
                self.env[name] = cur + guard * (newv - cur)
            else:
                self.env[name] = newv  # defined and used only inside the branch
            return
        # numeric or alias?
        e = self.expr_ast(value)
        if isinstance(e, (ast.Attribute, ast.Name, ast.Subscript, ast.Tuple)) and not (isinstance(e, ast.Attribute) and e.attr in ("nBytes", "nbytes", "itemsize")) and self.ctx.const_int(e) is None:
            self.env[name] = e
            return
        self.env[name] = self.P(value)


def nbytes_poly(sc: SizeCtx, cls: ClassInfo):
    """(Poly, definition node, kind) of the size a class declares for itself."""
    prog = sc.prog
    g = prog.lookup_method(cls, "nBytes", "getter")
    if g is not None and g.cls is cls or (g is not None and g.cls.name != "Sized"):
        return SizeEval(sc, cls, g).run(), g.node, "property"
    ca = prog.class_attr(cls, "nBytes")
    if ca is not None:
        v = prog.const_int(ca[0].module, ca[1], ca[0])
        if v is None:
            # item sizes of codecs (`VEC2F.btype.itemsize`, `i32.nBytes(2)`) are constants of the polynomial algebra
            pv = to_poly(ca[1], Ctx(prog, ca[0].module, ca[0]))
            if pv is not None and pv.is_const():
                return pv, ca[1], "class constant"
            raise AnalysisError(f"{cls.name}.nBytes class constant is not a constant expression")
        return Poly.const(v), ca[1], "class constant"
    summ = facts.init_summary(prog, cls)
    if "nBytes" in summ.attrs:
        v = prog.const_int(cls.module, summ.attrs["nBytes"], cls)
        if v is None:
            raise AnalysisError(f"{cls.name}.nBytes instance attribute is not a constant expression")
        node = next(st for a, st in summ.stores if a == "nBytes")
        return Poly.const(v), node, "instance attribute"
    return None, None, None
