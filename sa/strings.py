"""Byte-length algebra over BTSString.write and the NUL-cut check of BTSString.read (C13, C12)."""
from __future__ import annotations

import ast

from .index import Program, walk_no_nested
from .poly import Poly
from .report import AnalysisError, head, norm

CODECS = {"windows-1252": "cp1252", "cp1252": "cp1252", "windows_1252": "cp1252", "1252": "cp1252"}
NUL = (b"\x00",)


class BVal:
    """Abstract bytes value: list of parts ('enc', arg) | ('const', bytes) | ('zeros', Poly count) | ('other', text)"""

    def __init__(self, parts):
        self.parts = parts

    def length(self, L, nonneg):
        """(Poly, ok): total length; zeros(k) contributes k only when k>=0 is known, else not decidable."""
        tot = Poly()
        for p in self.parts:
            if p[0] == "enc":
                tot = tot + L
            elif p[0] == "encx":
                # the same text under ANOTHER codec has another length (utf-8: 1-3 bytes per cp1252 character)
                tot = tot + Poly.atom("L_" + p[1])
            elif p[0] == "const":
                tot = tot + len(p[1])
            elif p[0] == "fixed":
                tot = tot + p[1]
            elif p[0] == "zeros":
                if p[1].is_const() and p[1].const_value() >= 0:
                    tot = tot + p[1]
                elif implied_nonneg(p[1], nonneg):
                    tot = tot + p[1]
                else:
                    return None, f"repeat count `{p[1]}` is not known to be >= 0 on this path"
            else:
                return None, f"part `{p[1]}` has unknown length"
        return tot, None


def implied_nonneg(k, nonneg, at_least=0):
    """k >= at_least follows from the path constraints: k = c + d with c >= 0 known and d a constant >= at_least"""
    if k.is_const():
        return k.const_value() >= at_least
    for c in nonneg:
        d = k - c
        if d.is_const() and d.const_value() >= at_least:
            return True
    return False


class WriteAnalysis:
    """BTSString.write as path summaries (facts.path_returns): for every way the function can end, the integer constraints
    that hold on that path (linear forms over `size` and L = len(encoded text), each known >= 0) and the abstract value
    returned. Locals, guard order, if/else versus guard clauses and named intermediates do not matter."""

    def __init__(self, prog: Program):
        from .facts import path_returns
        self.prog = prog
        self.cls = prog.need_cls("BTSString", "tdfTypes")
        self.f = prog.need_method(self.cls, "write")
        ps = self.f.params
        if len(ps) < 2:
            raise AnalysisError("BTSString.write no longer takes (size, data)")
        self.size_p, self.data_p = ps[0], ps[1]
        self.S = Poly.atom("size")
        self.L = Poly.atom("L")
        self.nonneg = []
        self.returns = []  # (BVal, stmt, nonneg, guards=[(P, exc, stmt, test text)], value expr)
        self.raises = []  # (nonneg, exc, stmt, undecided tests, last test)
        self.slices = []
        self.unknown = []
        self.encodes = [c for c in walk_no_nested(self.f.node) if isinstance(c, ast.Call) and isinstance(c.func, ast.Attribute) and c.func.attr == "encode"]
        rets = []
        for pe in path_returns(self.f.node):
            self.nonneg = []
            undec = []
            last = None
            for t, pol in pe.guards:
                if isinstance(t, ast.Call) and isinstance(t.func, ast.Name) and t.func.id in ("__loop__", "__except__"):
                    self.unknown.append(pe.node)
                    continue
                last = t
                P = self.cond_poly(t)
                if P is None:
                    undec.append(t)
                    continue
                self.nonneg.append(P if pol else -P - 1)
            for e in pe.effects:
                self.unknown.append(e)
            if pe.kind == "return":
                b = self.bval(pe.value) if pe.value is not None else None
                rets.append((b, pe.node, list(self.nonneg), pe.value))
            elif pe.kind == "raise":
                exc = ""
                if pe.value is not None:
                    e = pe.value.func if isinstance(pe.value, ast.Call) else pe.value
                    exc = norm(e)
                self.raises.append((list(self.nonneg), exc, pe.node, undec, last))
            else:
                rets.append((None, self.f.node, list(self.nonneg), None))
        for b, st, nonneg, value in rets:
            guards = []
            for cons, exc, node, undec, last in self.raises:
                comp = [P for P in cons if any((-P - 1) == q for q in nonneg)]
                P = comp[0] if len(comp) == 1 and not undec else None
                guards.append((P, exc, node, norm(last) if last is not None else ""))
            self.returns.append((b, st, nonneg, guards, value))

    # -- expression evaluation
    def num(self, n):
        if isinstance(n, ast.Constant) and isinstance(n.value, int) and not isinstance(n.value, bool):
            return Poly.const(n.value)
        if isinstance(n, ast.Name):
            if n.id == self.size_p:
                return self.S
            return None
        if isinstance(n, ast.Call) and norm(n.func) == "len" and len(n.args) == 1 and isinstance(n.args[0], ast.Name) and n.args[0].id == self.data_p:
            # cp1252 is a single-byte code page: when every encoding of the text in this function is the strict cp1252 one (an
            # unencodable character raises), the number of characters is the number of encoded bytes
            def strict_cp1252(c):
                enc = c.args[0] if c.args else next((k.value for k in c.keywords if k.arg == "encoding"), None)
                return enc is not None and codec_of(enc) == "cp1252" and len(c.args) <= 1 and not any(k.arg == "errors" for k in c.keywords) \
                    and isinstance(c.func.value, ast.Name) and c.func.value.id == self.data_p
            if self.encodes and all(strict_cp1252(c) for c in self.encodes):
                return self.L
            return None
        if isinstance(n, ast.Call) and norm(n.func) == "len" and len(n.args) == 1:
            b = self.bval(n.args[0])
            if b is None:
                return None
            ln, why = b.length(self.L, self.nonneg)
            return ln
        if isinstance(n, ast.BinOp):
            a, b = self.num(n.left), self.num(n.right)
            if a is None or b is None:
                return None
            if isinstance(n.op, ast.Add):
                return a + b
            if isinstance(n.op, ast.Sub):
                return a - b
            if isinstance(n.op, ast.Mult):
                return a * b
        if isinstance(n, ast.UnaryOp) and isinstance(n.op, ast.USub):
            a = self.num(n.operand)
            return -a if a is not None else None
        if isinstance(n, ast.Call) and norm(n.func) == "max" and len(n.args) == 2:
            a, b = self.num(n.args[0]), self.num(n.args[1])
            if a is not None and a.is_const() and a.const_value() == 0 and b is not None:
                return b if implied_nonneg(b, self.nonneg) else None
        return None

    def bval(self, n):
        if isinstance(n, ast.Constant) and isinstance(n.value, bytes):
            return BVal([("const", n.value)])
        if isinstance(n, ast.Call) and isinstance(n.func, ast.Attribute) and n.func.attr == "encode":
            if isinstance(n.func.value, ast.Name) and n.func.value.id == self.data_p:
                enc = n.args[0] if n.args else next((k.value for k in n.keywords if k.arg == "encoding"), None)
                cod = (codec_of(enc) if enc is not None else "utf-8") or "unknown"
                if cod != "cp1252":
                    return BVal([("encx", cod.replace("-", "_"))])
                return BVal([("enc", n)])
            return BVal([("other", norm(n))])
        if isinstance(n, ast.BinOp) and isinstance(n.op, ast.Add):
            a, b = self.bval(n.left), self.bval(n.right)
            if a is None or b is None:
                return None
            return BVal(a.parts + b.parts)
        if isinstance(n, ast.Call) and isinstance(n.func, ast.Attribute) and n.func.attr == "join" and isinstance(n.func.value, ast.Constant) and n.func.value.value == b"" \
                and len(n.args) == 1 and isinstance(n.args[0], (ast.Tuple, ast.List)):
            parts = []
            for e in n.args[0].elts:
                b = self.bval(e)
                if b is None:
                    return None
                parts += b.parts
            return BVal(parts)
        if isinstance(n, ast.BinOp) and isinstance(n.op, ast.Mult):
            for x, y in ((n.left, n.right), (n.right, n.left)):
                if isinstance(x, ast.Constant) and isinstance(x.value, bytes) and len(x.value) == 1:
                    k = self.num(y)
                    if k is None:
                        return BVal([("other", norm(n))])
                    if x.value == b"\x00":
                        return BVal([("zeros", k)])
                    return BVal([("other", f"{x.value!r}*{k}")])
        if isinstance(n, ast.Call) and norm(n.func) in ("bytes", "bytearray") and len(n.args) == 1 and not n.keywords:
            k = self.num(n.args[0])
            if k is not None:
                return BVal([("zeros", k)])
        if isinstance(n, ast.Subscript):
            self.slices.append(n)
            return BVal([("other", norm(n))])
        if isinstance(n, ast.Call) and norm(n.func) == "struct.pack" and n.args and isinstance(n.args[0], ast.JoinedStr) and norm(n.args[0]).replace(" ", "") == f"f'{{{self.size_p}}}s'":
            # struct.pack(f"{size}s", x): always exactly `size` bytes - x is zero-padded OR SILENTLY TRUNCATED
            for a in n.args[1:]:
                self.bval(a)
            return BVal([("fixed", self.S, "struct.pack pads or truncates to the field width")])
        if isinstance(n, ast.Call) and isinstance(n.func, ast.Attribute) and n.func.attr == "ljust" and len(n.args) == 2 and isinstance(n.args[1], ast.Constant) \
                and n.args[1].value == b"\x00":
            # X.ljust(N, NUL) = X followed by N - len(X) zero bytes when that is >= 0 (the length algebra demands the proof)
            base = self.bval(n.func.value)
            width = self.num(n.args[0])
            if base is not None and width is not None:
                ln, why = base.length(self.L, self.nonneg)
                if ln is not None:
                    return BVal(base.parts + [("zeros", width - ln)])
            return BVal([("other", norm(n))])
        if isinstance(n, ast.Call) and isinstance(n.func, ast.Attribute) and n.func.attr in ("ljust", "rjust", "center") and len(n.args) >= 1:
            return BVal([("other", norm(n))])
        return None

    def cond_poly(self, test):
        """Return Poly P such that test is true iff P >= 0 (for integer comparisons), else None."""
        if isinstance(test, ast.UnaryOp) and isinstance(test.op, ast.Not):
            P = self.cond_poly(test.operand)
            return (-P - 1) if P is not None else None
        if isinstance(test, ast.Compare) and len(test.ops) == 1 and isinstance(test.ops[0], (ast.Eq, ast.NotEq)):
            # len(R + NUL*k) ==/!= N  with  k = N - len(R)  of unknown sign: a negative repeat gives b"", so the length is max(len(R), N);
            # it equals N exactly when k >= 0 and differs exactly when k < 0
            for x, y in ((test.left, test.comparators[0]), (test.comparators[0], test.left)):
                if isinstance(x, ast.Call) and norm(x.func) == "len" and len(x.args) == 1:
                    bv = self.bval(x.args[0])
                    n_ = self.num(y)
                    if bv is None or n_ is None:
                        continue
                    zs = [p for p in bv.parts if p[0] == "zeros" and not (p[1].is_const() and p[1].const_value() >= 0) and not implied_nonneg(p[1], self.nonneg)]
                    if len(zs) != 1:
                        continue
                    rest, why = BVal([p for p in bv.parts if p is not zs[0]]).length(self.L, self.nonneg)
                    if rest is None or not (n_ - rest == zs[0][1]):
                        continue
                    k = zs[0][1]
                    return k if isinstance(test.ops[0], ast.Eq) else (-k - 1)
            return None
        if isinstance(test, ast.Compare) and len(test.ops) == 1:
            a, b = self.num(test.left), self.num(test.comparators[0])
            if a is None or b is None:
                return None
            op = test.ops[0]
            if isinstance(op, ast.Gt):
                return a - b - 1
            if isinstance(op, ast.GtE):
                return a - b
            if isinstance(op, ast.Lt):
                return b - a - 1
            if isinstance(op, ast.LtE):
                return b - a
        return None


def codec_of(node):
    if isinstance(node, ast.Constant) and isinstance(node.value, str):
        return CODECS.get(node.value.lower().replace("_", "-"), node.value.lower())
    return None


# ------------------------------------------------------------------------------------------------ NUL cut
def nul_cut(prog: Program):
    """Classify every way BTSString.read can return (path summaries, locals substituted): the text is the decode of the bytes
    before the FIRST NUL of the field; the whole field is decoded only on a path that has established that it contains no NUL
    (the ValueError of .index(NUL), a find() == -1 / `NUL not in field` test) or on which decoding the cut has just failed with
    the same codec (so the whole field fails the same way). Returns (function, [(ok, node, text)])."""
    from .facts import path_returns, split_ifexp
    cls = prog.need_cls("BTSString", "tdfTypes")
    f = prog.need_method(cls, "read")
    fn = f.node
    data_p = f.params[1] if len(f.params) > 1 else None
    NULS = (b"\x00", 0)

    def is_field(e):
        """the `size` raw bytes: the data parameter, or struct.unpack(f"{size}s", data)[0]"""
        if isinstance(e, ast.Name) and e.id == data_p:
            return True
        if isinstance(e, ast.Subscript) and norm(e.slice) == "0" and isinstance(e.value, ast.Call) and norm(e.value.func) in ("struct.unpack", "unpack") and len(e.value.args) == 2:
            # .. with a format that is the whole field: f"{size}s" (or "%ds" % size, str(size) + "s", "{}s".format(size)) - a format with
            # a pad (`x`) or a shorter count keeps bytes of the field away from the NUL search
            fmt, src = e.value.args
            size_p = f.params[0] if f.params else None
            whole = False
            if isinstance(fmt, ast.JoinedStr) and len(fmt.values) == 2 and isinstance(fmt.values[0], ast.FormattedValue) and isinstance(fmt.values[0].value, ast.Name) \
                    and fmt.values[0].value.id == size_p and fmt.values[0].format_spec is None and isinstance(fmt.values[1], ast.Constant) and fmt.values[1].value == "s":
                whole = True
            elif norm(fmt).replace('"', "'") in (f"'%ds' % {size_p}", f"'%is' % {size_p}", f"str({size_p}) + 's'", f"'{{}}s'.format({size_p})", f"'%ds' % ({size_p},)"):
                whole = True
            return whole and isinstance(src, ast.Name) and src.id == data_p
        return False

    def nul_pos(e, fld):
        """'index' / 'find' when e is <field>.index(NUL) / .find(NUL) on the same field"""
        if isinstance(e, ast.Call) and isinstance(e.func, ast.Attribute) and e.func.attr in ("index", "find") and len(e.args) == 1 and not e.keywords \
                and isinstance(e.args[0], ast.Constant) and e.args[0].value in NULS and norm(e.func.value) == norm(fld):
            return e.func.attr
        return None

    def cut_kind(base):
        if isinstance(base, ast.Subscript) and isinstance(base.slice, ast.Slice) and base.slice.lower is None and base.slice.step is None and base.slice.upper is not None \
                and is_field(base.value):
            k = nul_pos(base.slice.upper, base.value)
            if k:
                return "cut-" + k
        if isinstance(base, ast.Subscript) and norm(base.slice) == "0" and isinstance(base.value, ast.Call) and isinstance(base.value.func, ast.Attribute) \
                and base.value.func.attr in ("split", "partition") and base.value.args and isinstance(base.value.args[0], ast.Constant) and base.value.args[0].value == b"\x00" \
                and is_field(base.value.func.value):
            return "cut-" + base.value.func.attr
        return None

    def try_body_only_raises_for_no_nul_or_bad_prefix(tr):
        """every call in the try body is <field>.index(NUL) or the decode of a cut (or pure slicing)"""
        calls = [c for b in tr.body for c in ast.walk(b) if isinstance(c, ast.Call)]
        if not calls:
            return False
        has_index = False
        for c in calls:
            if isinstance(c.func, ast.Attribute) and c.func.attr == "index" and c.args and isinstance(c.args[0], ast.Constant) and c.args[0].value in NULS:
                has_index = True
                continue
            if isinstance(c.func, ast.Attribute) and c.func.attr == "decode":
                continue
            if norm(c.func) in ("struct.unpack", "len"):
                continue
            if isinstance(c.func, ast.Attribute) and c.func.attr in ("split", "partition") and c.args and isinstance(c.args[0], ast.Constant) and c.args[0].value == b"\x00":
                continue
            return False
        decs = [c for c in calls if isinstance(c.func, ast.Attribute) and c.func.attr == "decode"]
        return has_index or bool(decs)

    def try_body_find_raises_when_absent(tr):
        """try body: pos = <field>.find(NUL); if pos < 0 (== -1): raise ValueError(..); decode of the cut - the explicit raise plays
        the part of .index()'s ValueError"""
        finds = [c for b in tr.body for c in ast.walk(b) if isinstance(c, ast.Call) and isinstance(c.func, ast.Attribute) and c.func.attr == "find" and c.args
                 and isinstance(c.args[0], ast.Constant) and c.args[0].value in NULS]
        if not finds:
            return False
        raises_ = [r for b in tr.body for r in ast.walk(b) if isinstance(r, ast.Raise)]
        if not raises_:
            return False
        from .mutrules import enclosing_tests
        for r in raises_:
            exc = r.exc.func if isinstance(r.exc, ast.Call) else r.exc
            if exc is None or norm(exc) != "ValueError":
                return False
            tests = enclosing_tests(fn, r)
            okk = False
            for t, br in tests:
                s_ = norm(t).replace(" ", "")
                if br and (s_.endswith("<0") or s_.endswith("==-1") or s_.endswith("<=-1")):
                    okk = True
            if not okk:
                return False
        others = [c for b in tr.body for c in ast.walk(b) if isinstance(c, ast.Call) and c not in finds
                  and not (isinstance(c.func, ast.Attribute) and c.func.attr == "decode") and norm(c.func) not in ("ValueError", "struct.unpack", "len")]
        return not others

    out = []
    n_ret = 0
    for pe in path_returns(fn):
        if pe.kind == "raise":
            continue
        if pe.kind != "return" or pe.value is None:
            out.append((False, pe.node, "a path returns no text"))
            continue
        for conds, v in split_ifexp(pe.value):
            n_ret += 1
            guards = pe.guards + conds
            if not (isinstance(v, ast.Call) and isinstance(v.func, ast.Attribute) and v.func.attr == "decode"):
                if isinstance(v, ast.Call) and isinstance(v.func, ast.Attribute) and isinstance(v.func.value, ast.Call) and isinstance(v.func.value.func, ast.Attribute) \
                        and v.func.value.func.attr == "decode":
                    out.append((False, pe.node, f"the decoded text is post-processed by .{v.func.attr}(): valid stored text is not returned identically"))
                else:
                    out.append((False, pe.node, f"returns `{norm(v)[:80]}`: the text is not the decode of a NUL-cut of the field"))
                continue
            base = v.func.value
            kind = cut_kind(base)
            if kind is None and is_field(base):
                kind = "whole"
            # what the path knows about a NUL being present
            no_nul = False
            for t, pol in guards:
                if isinstance(t, ast.Call) and isinstance(t.func, ast.Name) and t.func.id == "__except__":
                    tr = getattr(t, "_try", None)
                    exc = norm(t.args[0]) if t.args else ""
                    if exc in ("ValueError", "UnicodeDecodeError", "UnicodeError") and tr is not None and (try_body_only_raises_for_no_nul_or_bad_prefix(tr)
                                                                                                              or try_body_find_raises_when_absent(tr)):
                        no_nul = True
                    continue
                tt, pp = t, pol
                while isinstance(tt, ast.UnaryOp) and isinstance(tt.op, ast.Not):
                    tt, pp = tt.operand, not pp
                if isinstance(tt, ast.Compare) and len(tt.ops) == 1:
                    l, op, r = tt.left, tt.ops[0], tt.comparators[0]
                    # <field>.find(NUL) compared with -1 / 0
                    if isinstance(l, ast.Call) and isinstance(l.func, ast.Attribute) and l.func.attr == "find" and l.args and isinstance(l.args[0], ast.Constant) \
                            and l.args[0].value in NULS and is_field(l.func.value):
                        rv = r.operand.value * -1 if isinstance(r, ast.UnaryOp) and isinstance(r.op, ast.USub) and isinstance(r.operand, ast.Constant) else (r.value if isinstance(r, ast.Constant) else None)
                        absent_when_true = (isinstance(op, ast.Eq) and rv == -1) or (isinstance(op, ast.Lt) and rv == 0) or (isinstance(op, ast.LtE) and rv == -1)
                        absent_when_false = (isinstance(op, ast.NotEq) and rv == -1) or (isinstance(op, ast.GtE) and rv == 0) or (isinstance(op, ast.Gt) and rv == -1)
                        if (pp and absent_when_true) or (not pp and absent_when_false):
                            no_nul = True
                    # NUL in / not in <field>
                    if isinstance(op, (ast.In, ast.NotIn)) and isinstance(l, ast.Constant) and l.value == b"\x00" and is_field(r):
                        if (isinstance(op, ast.NotIn) and pp) or (isinstance(op, ast.In) and not pp):
                            no_nul = True
            if kind is None:
                out.append((False, pe.node, f"`{norm(base)[:80]}` is decoded: not a cut of the field at its FIRST NUL (bytes after the terminator could influence the text or make decoding fail)"))
            elif kind == "whole":
                if no_nul:
                    out.append((True, pe.node, "whole field decoded only on the path where it contains no NUL"))
                else:
                    out.append((False, pe.node, "the whole field (including bytes after the terminator) is decoded on a path where a NUL may exist"))
            elif kind == "cut-find":
                guarded = any(not (isinstance(t, ast.Call) and isinstance(t.func, ast.Name) and t.func.id in ("__except__", "__loop__")) for t, _ in guards)
                if guarded:
                    out.append((True, pe.node, "cut at find() under a guard"))
                else:
                    out.append((False, pe.node, "cut at find() without handling -1"))
            else:
                out.append((True, pe.node, f"decode applied to the bytes before the first NUL ({kind})"))
    if not n_ret:
        raise AnalysisError("BTSString.read has no return")
    return f, out


def call_args(call, names):
    """positional + keyword arguments of a call, keyed by the callee's parameter names"""
    out = {}
    for n_, a in zip(names, call.args):
        out[n_] = a
    for k in call.keywords:
        if k.arg:
            out[k.arg] = k.value
    return out


def bread_delegates(prog: Program):
    """BTSString.bread returns, on every path, BTSString.read(size, <stream>.read(size), ...) - positional or keyword, through
    locals or not - and does not decode / cut on its own."""
    from .facts import return_leaves
    cls = prog.need_cls("BTSString", "tdfTypes")
    br = prog.need_method(cls, "bread")
    rd = prog.need_method(cls, "read")
    own = [c for c in walk_no_nested(br.node) if isinstance(c, ast.Call) and isinstance(c.func, ast.Attribute) and c.func.attr in ("decode", "split", "rstrip", "strip", "partition")]
    if own:
        return False
    leaves = return_leaves(br.node)
    if not leaves:
        return False
    for _, v, _ in leaves:
        if not (isinstance(v, ast.Call) and norm(v.func) in ("BTSString.read", "cls.read")):
            return False
        a = call_args(v, rd.params)
        sz = a.get(rd.params[0])
        dat = a.get(rd.params[1]) if len(rd.params) > 1 else None
        if not (sz is not None and norm(sz) == br.params[1] and isinstance(dat, ast.Call) and isinstance(dat.func, ast.Attribute) and dat.func.attr == "read"
                and norm(dat.func.value) == br.params[0] and len(dat.args) == 1 and norm(dat.args[0]) == br.params[1]):
            return False
    return True
