"""Byte-length algebra over BTSString.write and the NUL-cut check of BTSString.read (C13, C12)."""
from __future__ import annotations

import ast

from .index import Program, walk_no_nested
from .poly import Poly
from .report import AnalysisError, head, norm

CODECS = {"windows-1252": "cp1252", "cp1252": "cp1252", "windows_1252": "cp1252", "1252": "cp1252"}
NUL = (b"\x00",)


class BVal:
    """Abstract bytes value: list of parts ('enc', arg) | ('const', bytes) | ('zeros', Poly count) | ('other', text)"""

    def __init__(self, parts):
        self.parts = parts

    def length(self, L, nonneg):
        """(Poly, ok): total length; zeros(k) contributes k only when k>=0 is known, else not decidable."""
        tot = Poly()
        for p in self.parts:
            if p[0] == "enc":
                tot = tot + L
            elif p[0] == "const":
                tot = tot + len(p[1])
            elif p[0] == "fixed":
                tot = tot + p[1]
            elif p[0] == "zeros":
                if p[1].is_const() and p[1].const_value() >= 0:
                    tot = tot + p[1]
                elif any(p[1] == c for c in nonneg):
                    tot = tot + p[1]
                else:
                    return None, f"repeat count `{p[1]}` is not known to be >= 0 on this path"
            else:
                return None, f"part `{p[1]}` has unknown length"
        return tot, None


class WriteAnalysis:
    """BTSString.write as path summaries (facts.path_returns): for every way the function can end, the integer constraints
    that hold on that path (linear forms over `size` and L = len(encoded text), each known >= 0) and the abstract value
    returned. Locals, guard order, if/else versus guard clauses and named intermediates do not matter."""

    def __init__(self, prog: Program):
        from .facts import path_returns
        self.prog = prog
        self.cls = prog.need_cls("BTSString", "tdfTypes")
        self.f = prog.need_method(self.cls, "write")
        ps = self.f.params
        if len(ps) < 2:
            raise AnalysisError("BTSString.write no longer takes (size, data)")
        self.size_p, self.data_p = ps[0], ps[1]
        self.S = Poly.atom("size")
        self.L = Poly.atom("L")
        self.nonneg = []
        self.returns = []  # (BVal, stmt, nonneg, guards=[(P, exc, stmt, test text)], value expr)
        self.raises = []  # (nonneg, exc, stmt, undecided tests, last test)
        self.slices = []
        self.unknown = []
        self.encodes = [c for c in walk_no_nested(self.f.node) if isinstance(c, ast.Call) and isinstance(c.func, ast.Attribute) and c.func.attr == "encode"]
        rets = []
        for pe in path_returns(self.f.node):
            self.nonneg = []
            undec = []
            last = None
            for t, pol in pe.guards:
                if isinstance(t, ast.Call) and isinstance(t.func, ast.Name) and t.func.id in ("__loop__", "__except__"):
                    self.unknown.append(pe.node)
                    continue
                last = t
                P = self.cond_poly(t)
                if P is None:
                    undec.append(t)
                    continue
                self.nonneg.append(P if pol else -P - 1)
            for e in pe.effects:
                self.unknown.append(e)
            if pe.kind == "return":
                b = self.bval(pe.value) if pe.value is not None else None
                rets.append((b, pe.node, list(self.nonneg), pe.value))
            elif pe.kind == "raise":
                exc = ""
                if pe.value is not None:
                    e = pe.value.func if isinstance(pe.value, ast.Call) else pe.value
                    exc = norm(e)
                self.raises.append((list(self.nonneg), exc, pe.node, undec, last))
            else:
                rets.append((None, self.f.node, list(self.nonneg), None))
        for b, st, nonneg, value in rets:
            guards = []
            for cons, exc, node, undec, last in self.raises:
                comp = [P for P in cons if any((-P - 1) == q for q in nonneg)]
                P = comp[0] if len(comp) == 1 and not undec else None
                guards.append((P, exc, node, norm(last) if last is not None else ""))
            self.returns.append((b, st, nonneg, guards, value))

    # -- expression evaluation
    def num(self, n):
        if isinstance(n, ast.Constant) and isinstance(n.value, int) and not isinstance(n.value, bool):
            return Poly.const(n.value)
        if isinstance(n, ast.Name):
            if n.id == self.size_p:
                return self.S
            return None
        if isinstance(n, ast.Call) and norm(n.func) == "len" and len(n.args) == 1:
            b = self.bval(n.args[0])
            if b is None:
                return None
            ln, why = b.length(self.L, self.nonneg)
            return ln
        if isinstance(n, ast.BinOp):
            a, b = self.num(n.left), self.num(n.right)
            if a is None or b is None:
                return None
            if isinstance(n.op, ast.Add):
                return a + b
            if isinstance(n.op, ast.Sub):
                return a - b
            if isinstance(n.op, ast.Mult):
                return a * b
        if isinstance(n, ast.UnaryOp) and isinstance(n.op, ast.USub):
            a = self.num(n.operand)
            return -a if a is not None else None
        if isinstance(n, ast.Call) and norm(n.func) == "max" and len(n.args) == 2:
            a, b = self.num(n.args[0]), self.num(n.args[1])
            if a is not None and a.is_const() and a.const_value() == 0 and b is not None:
                return b if any(b == c for c in self.nonneg) else None
        return None

    def bval(self, n):
        if isinstance(n, ast.Constant) and isinstance(n.value, bytes):
            return BVal([("const", n.value)])
        if isinstance(n, ast.Call) and isinstance(n.func, ast.Attribute) and n.func.attr == "encode":
            if isinstance(n.func.value, ast.Name) and n.func.value.id == self.data_p:
                return BVal([("enc", n)])
            return BVal([("other", norm(n))])
        if isinstance(n, ast.BinOp) and isinstance(n.op, ast.Add):
            a, b = self.bval(n.left), self.bval(n.right)
            if a is None or b is None:
                return None
            return BVal(a.parts + b.parts)
        if isinstance(n, ast.Call) and isinstance(n.func, ast.Attribute) and n.func.attr == "join" and isinstance(n.func.value, ast.Constant) and n.func.value.value == b"" \
                and len(n.args) == 1 and isinstance(n.args[0], (ast.Tuple, ast.List)):
            parts = []
            for e in n.args[0].elts:
                b = self.bval(e)
                if b is None:
                    return None
                parts += b.parts
            return BVal(parts)
        if isinstance(n, ast.BinOp) and isinstance(n.op, ast.Mult):
            for x, y in ((n.left, n.right), (n.right, n.left)):
                if isinstance(x, ast.Constant) and isinstance(x.value, bytes) and len(x.value) == 1:
                    k = self.num(y)
                    if k is None:
                        return BVal([("other", norm(n))])
                    if x.value == b"\x00":
                        return BVal([("zeros", k)])
                    return BVal([("other", f"{x.value!r}*{k}")])
        if isinstance(n, ast.Call) and norm(n.func) in ("bytes", "bytearray") and len(n.args) == 1 and not n.keywords:
            k = self.num(n.args[0])
            if k is not None:
                return BVal([("zeros", k)])
        if isinstance(n, ast.Subscript):
            self.slices.append(n)
            return BVal([("other", norm(n))])
        if isinstance(n, ast.Call) and norm(n.func) == "struct.pack" and n.args and isinstance(n.args[0], ast.JoinedStr) and norm(n.args[0]).replace(" ", "") == f"f'{{{self.size_p}}}s'":
            # struct.pack(f"{size}s", x): always exactly `size` bytes - x is zero-padded OR SILENTLY TRUNCATED
            for a in n.args[1:]:
                self.bval(a)
            return BVal([("fixed", self.S, "struct.pack pads or truncates to the field width")])
        if isinstance(n, ast.Call) and isinstance(n.func, ast.Attribute) and n.func.attr == "ljust" and len(n.args) == 2 and isinstance(n.args[1], ast.Constant) \
                and n.args[1].value == b"\x00":
            # X.ljust(N, NUL) = X followed by N - len(X) zero bytes when that is >= 0 (the length algebra demands the proof)
            base = self.bval(n.func.value)
            width = self.num(n.args[0])
            if base is not None and width is not None:
                ln, why = base.length(self.L, self.nonneg)
                if ln is not None:
                    return BVal(base.parts + [("zeros", width - ln)])
            return BVal([("other", norm(n))])
        if isinstance(n, ast.Call) and isinstance(n.func, ast.Attribute) and n.func.attr in ("ljust", "rjust", "center") and len(n.args) >= 1:
            return BVal([("other", norm(n))])
        return None

    def cond_poly(self, test):
        """Return Poly P such that test is true iff P >= 0 (for integer comparisons), else None."""
        if isinstance(test, ast.UnaryOp) and isinstance(test.op, ast.Not):
            P = self.cond_poly(test.operand)
            return (-P - 1) if P is not None else None
        if isinstance(test, ast.Compare) and len(test.ops) == 1:
            a, b = self.num(test.left), self.num(test.comparators[0])
            if a is None or b is None:
                return None
            op = test.ops[0]
            if isinstance(op, ast.Gt):
                return a - b - 1
            if isinstance(op, ast.GtE):
                return a - b
            if isinstance(op, ast.Lt):
                return b - a - 1
            if isinstance(op, ast.LtE):
                return b - a
        return None


def codec_of(node):
    if isinstance(node, ast.Constant) and isinstance(node.value, str):
        return CODECS.get(node.value.lower().replace("_", "-"), node.value.lower())
    return None


# ------------------------------------------------------------------------------------------------ NUL cut
def nul_cut(prog: Program):
    """Classify every return of BTSString.read. Returns list of (ok, stmt, text)."""
    cls = prog.need_cls("BTSString", "tdfTypes")
    f = prog.need_method(cls, "read")
    out = []
    fn = f.node
    # the field variable: result of struct.unpack(...)[0] or the data parameter
    field_names = set()
    data_p = f.params[1] if len(f.params) > 1 else None
    if data_p:
        field_names.add(data_p)
    pos_names = {}  # name -> ('index'|'find', field)
    for n in walk_no_nested(fn):
        if isinstance(n, ast.Assign) and len(n.targets) == 1 and isinstance(n.targets[0], ast.Name):
            v = n.value
            if isinstance(v, ast.Subscript) and isinstance(v.value, ast.Call) and norm(v.value.func) == "struct.unpack":
                field_names.add(n.targets[0].id)
            if isinstance(v, ast.Call) and isinstance(v.func, ast.Attribute) and v.func.attr in ("index", "find") and v.args \
                    and isinstance(v.args[0], ast.Constant) and v.args[0].value in (b"\x00", b"\0") and isinstance(v.func.value, ast.Name):
                pos_names[n.targets[0].id] = (v.func.attr, v.func.value.id, n)

    def index_call(e):
        return isinstance(e, ast.Call) and isinstance(e.func, ast.Attribute) and e.func.attr in ("index", "find") and e.args and isinstance(e.args[0], ast.Constant) \
            and e.args[0].value == b"\x00" and isinstance(e.func.value, ast.Name) and len(e.args) == 1

    def is_cut(base):
        if isinstance(base, ast.Subscript) and isinstance(base.value, ast.Name) and base.value.id in field_names and isinstance(base.slice, ast.Slice) \
                and base.slice.lower is None and base.slice.step is None and index_call(base.slice.upper) and base.slice.upper.func.attr == "index" \
                and base.slice.upper.func.value.id == base.value.id:
            return True
        return isinstance(base, ast.Subscript) and isinstance(base.value, ast.Name) and base.value.id in field_names and isinstance(base.slice, ast.Slice) \
            and base.slice.lower is None and base.slice.step is None and isinstance(base.slice.upper, ast.Name) and base.slice.upper.id in pos_names \
            and pos_names[base.slice.upper.id][1] == base.value.id and pos_names[base.slice.upper.id][0] == "index"

    def in_valueerror_handler(st):
        """st lies in an `except ValueError` handler of a try whose body calls .index(b'\\0') on the field"""
        for t in walk_no_nested(fn):
            if isinstance(t, ast.Try):
                has_index = any(isinstance(c, ast.Call) and isinstance(c.func, ast.Attribute) and c.func.attr == "index" and c.args
                                and isinstance(c.args[0], ast.Constant) and c.args[0].value == b"\x00" for b in t.body for c in ast.walk(b))
                if not has_index:
                    # the only thing that can raise in the try body is the decode of the bytes BEFORE the first NUL: the handler
                    # then decodes the same leading bytes (plus more) with the same codec, which fails the same way - the
                    # handler yields no text that differs from the cut
                    calls = [c for b in t.body for c in ast.walk(b) if isinstance(c, ast.Call)]
                    decs = [c for c in calls if isinstance(c.func, ast.Attribute) and c.func.attr == "decode" and is_cut(c.func.value)]
                    if calls and len(decs) == len(calls):
                        has_index = True
                for h in t.handlers:
                    if any(s is st for b in h.body for s in ast.walk(b)):
                        return has_index and h.type is not None and norm(h.type) in ("ValueError",)
        return False

    def guarded_no_nul(st):
        from .mutrules import enclosing_tests

        for t, br in enclosing_tests(fn, st):
            s = norm(t).replace(" ", "")
            if br and (s.endswith("==-1") or s.endswith("<0") or "notin" in s and "\\x00" in s):
                return True
            if not br and (s.endswith("!=-1") or s.endswith(">=0") or s.endswith(">-1") or ("in" in s and "\\x00" in s and "notin" not in s)):
                return True
        return False

    rets = [s for s in walk_no_nested(fn) if isinstance(s, ast.Return)]
    if not rets:
        raise AnalysisError("BTSString.read has no return")
    for r in rets:
        v = r.value
        if not (isinstance(v, ast.Call) and isinstance(v.func, ast.Attribute) and v.func.attr == "decode"):
            out.append((False, r, f"returns `{norm(v)}`: the text is not the decode of a NUL-cut of the field"))
            continue
        base = v.func.value
        kind = None
        if isinstance(base, ast.Name) and base.id in field_names:
            kind = "whole"
        elif isinstance(base, ast.Subscript) and isinstance(base.value, ast.Name) and base.value.id in field_names and isinstance(base.slice, ast.Slice) \
                and base.slice.lower is None and base.slice.step is None and isinstance(base.slice.upper, ast.Name) and base.slice.upper.id in pos_names \
                and pos_names[base.slice.upper.id][1] == base.value.id:
            kind = "cut-" + pos_names[base.slice.upper.id][0]
        elif isinstance(base, ast.Subscript) and isinstance(base.value, ast.Name) and base.value.id in field_names and isinstance(base.slice, ast.Slice) \
                and base.slice.lower is None and base.slice.step is None and index_call(base.slice.upper) and base.slice.upper.func.value.id == base.value.id:
            kind = "cut-" + base.slice.upper.func.attr + "-inline"
        elif isinstance(base, ast.Subscript) and norm(base.slice) == "0" and isinstance(base.value, ast.Call) and isinstance(base.value.func, ast.Attribute) \
                and base.value.func.attr in ("split", "partition") and base.value.args and isinstance(base.value.args[0], ast.Constant) and base.value.args[0].value == b"\x00" \
                and isinstance(base.value.func.value, ast.Name) and base.value.func.value.id in field_names:
            if base.value.func.attr == "split" and len(base.value.args) < 2 and not base.value.keywords:
                kind = "cut-split"  # split without maxsplit still cuts at the first NUL for element 0
            else:
                kind = "cut-" + base.value.func.attr
        if kind is None:
            out.append((False, r, f"`{norm(base)}` is decoded: not a cut of the field at its FIRST NUL (bytes after the terminator could influence the text or make decoding fail)"))
        elif kind == "whole":
            if in_valueerror_handler(r) or guarded_no_nul(r):
                out.append((True, r, "whole field decoded only on the path where it contains no NUL"))
            else:
                out.append((False, r, "the whole field (including bytes after the terminator) is decoded on a path where a NUL may exist"))
        elif kind in ("cut-find", "cut-find-inline"):
            if guarded_no_nul(r) or any(True for _ in []):
                out.append((True, r, "cut at find() guarded for -1"))
            else:
                # find() == -1 would cut the last byte: must be guarded
                from .mutrules import enclosing_tests
                tests = enclosing_tests(fn, r)
                if tests:
                    out.append((True, r, "cut at find() under a guard"))
                else:
                    out.append((False, r, "cut at find() without handling -1"))
        else:
            out.append((True, r, f"decode applied to the bytes before the first NUL ({kind})"))
    return f, out


def call_args(call, names):
    """positional + keyword arguments of a call, keyed by the callee's parameter names"""
    out = {}
    for n_, a in zip(names, call.args):
        out[n_] = a
    for k in call.keywords:
        if k.arg:
            out[k.arg] = k.value
    return out


def bread_delegates(prog: Program):
    """BTSString.bread returns, on every path, BTSString.read(size, <stream>.read(size), ...) - positional or keyword, through
    locals or not - and does not decode / cut on its own."""
    from .facts import return_leaves
    cls = prog.need_cls("BTSString", "tdfTypes")
    br = prog.need_method(cls, "bread")
    rd = prog.need_method(cls, "read")
    own = [c for c in walk_no_nested(br.node) if isinstance(c, ast.Call) and isinstance(c.func, ast.Attribute) and c.func.attr in ("decode", "split", "rstrip", "strip", "partition")]
    if own:
        return False
    leaves = return_leaves(br.node)
    if not leaves:
        return False
    for _, v, _ in leaves:
        if not (isinstance(v, ast.Call) and norm(v.func) in ("BTSString.read", "cls.read")):
            return False
        a = call_args(v, rd.params)
        sz = a.get(rd.params[0])
        dat = a.get(rd.params[1]) if len(rd.params) > 1 else None
        if not (sz is not None and norm(sz) == br.params[1] and isinstance(dat, ast.Call) and isinstance(dat.func, ast.Attribute) and dat.func.attr == "read"
                and norm(dat.func.value) == br.params[0] and len(dat.args) == 1 and norm(dat.args[0]) == br.params[1]):
            return False
    return True
