"""Byte-length algebra over BTSString.write and the NUL-cut check of BTSString.read (C13, C12)."""
from __future__ import annotations

import ast

from .index import Program, walk_no_nested
from .poly import Poly
from .report import AnalysisError, head, norm

CODECS = {"windows-1252": "cp1252", "cp1252": "cp1252", "windows_1252": "cp1252", "1252": "cp1252"}
NUL = (b"\x00",)


class BVal:
    """Abstract bytes value: list of parts ('enc', arg) | ('const', bytes) | ('zeros', Poly count) | ('other', text)"""

    def __init__(self, parts):
        self.parts = parts

    def length(self, L, nonneg):
        """(Poly, ok): total length; zeros(k) contributes k only when k>=0 is known, else not decidable."""
        tot = Poly()
        for p in self.parts:
            if p[0] == "enc":
                tot = tot + L
            elif p[0] == "const":
                tot = tot + len(p[1])
            elif p[0] == "fixed":
                tot = tot + p[1]
            elif p[0] == "zeros":
                if p[1].is_const() and p[1].const_value() >= 0:
                    tot = tot + p[1]
                elif any(p[1] == c for c in nonneg):
                    tot = tot + p[1]
                else:
                    return None, f"repeat count `{p[1]}` is not known to be >= 0 on this path"
            else:
                return None, f"part `{p[1]}` has unknown length"
        return tot, None


class WriteAnalysis:
    def __init__(self, prog: Program):
        self.prog = prog
        self.cls = prog.need_cls("BTSString", "tdfTypes")
        self.f = prog.need_method(self.cls, "write")
        ps = self.f.params
        if len(ps) < 2:
            raise AnalysisError("BTSString.write no longer takes (size, data)")
        self.size_p, self.data_p = ps[0], ps[1]
        self.S = Poly.atom("size")
        self.L = Poly.atom("L")
        self.env = {}  # name -> BVal | Poly
        self.nonneg = []  # polynomials known >= 0 on the fall-through path
        self.guards = []  # (Poly P with raise iff P >= 0, exc, stmt)
        self.returns = []  # (BVal, stmt, guards snapshot)
        self.encodes = []  # call nodes
        self.slices = []
        self.unknown = []
        self._block(self.f.node.body)

    # -- expression evaluation
    def num(self, n):
        if isinstance(n, ast.Constant) and isinstance(n.value, int):
            return Poly.const(n.value)
        if isinstance(n, ast.Name):
            if n.id == self.size_p:
                return self.S
            v = self.env.get(n.id)
            return v if isinstance(v, Poly) else None
        if isinstance(n, ast.Call) and norm(n.func) == "len" and len(n.args) == 1:
            b = self.bval(n.args[0])
            if b is None:
                return None
            ln, why = b.length(self.L, self.nonneg)
            return ln
        if isinstance(n, ast.BinOp):
            a, b = self.num(n.left), self.num(n.right)
            if a is None or b is None:
                return None
            if isinstance(n.op, ast.Add):
                return a + b
            if isinstance(n.op, ast.Sub):
                return a - b
            if isinstance(n.op, ast.Mult):
                return a * b
        if isinstance(n, ast.Call) and norm(n.func) == "max" and len(n.args) == 2:
            a, b = self.num(n.args[0]), self.num(n.args[1])
            if a is not None and a.is_const() and a.const_value() == 0 and b is not None:
                self.nonneg.append(b) if False else None
                return b if any(b == c for c in self.nonneg) else None
        return None

    def bval(self, n):
        if isinstance(n, ast.Constant) and isinstance(n.value, bytes):
            return BVal([("const", n.value)])
        if isinstance(n, ast.Name):
            v = self.env.get(n.id)
            return v if isinstance(v, BVal) else None
        if isinstance(n, ast.Call) and isinstance(n.func, ast.Attribute) and n.func.attr == "encode":
            self.encodes.append(n)
            if isinstance(n.func.value, ast.Name) and n.func.value.id == self.data_p:
                return BVal([("enc", n)])
            return BVal([("other", norm(n))])
        if isinstance(n, ast.BinOp) and isinstance(n.op, ast.Add):
            a, b = self.bval(n.left), self.bval(n.right)
            if a is None or b is None:
                return None
            return BVal(a.parts + b.parts)
        if isinstance(n, ast.BinOp) and isinstance(n.op, ast.Mult):
            for x, y in ((n.left, n.right), (n.right, n.left)):
                if isinstance(x, ast.Constant) and isinstance(x.value, bytes) and len(x.value) == 1:
                    k = self.num(y)
                    if k is None:
                        return BVal([("other", norm(n))])
                    if x.value == b"\x00":
                        return BVal([("zeros", k)])
                    return BVal([("other", f"{x.value!r}*{k}")])
        if isinstance(n, ast.Subscript):
            self.slices.append(n)
            return BVal([("other", norm(n))])
        if isinstance(n, ast.Call) and norm(n.func) == "struct.pack" and n.args and isinstance(n.args[0], ast.JoinedStr) and norm(n.args[0]).replace(" ", "") == f"f'{{{self.size_p}}}s'":
            # struct.pack(f"{size}s", x): always exactly `size` bytes - x is zero-padded OR SILENTLY TRUNCATED
            for a in n.args[1:]:
                self.bval(a)
            return BVal([("fixed", self.S, "struct.pack pads or truncates to the field width")])
        if isinstance(n, ast.Call) and isinstance(n.func, ast.Attribute) and n.func.attr in ("ljust", "rjust", "center") and len(n.args) >= 1:
            return BVal([("other", norm(n))])
        return None

    def cond_poly(self, test):
        """Return Poly P such that test is true iff P >= 0 (for integer comparisons), else None."""
        if isinstance(test, ast.Compare) and len(test.ops) == 1:
            a, b = self.num(test.left), self.num(test.comparators[0])
            if a is None or b is None:
                return None
            op = test.ops[0]
            if isinstance(op, ast.Gt):
                return a - b - 1
            if isinstance(op, ast.GtE):
                return a - b
            if isinstance(op, ast.Lt):
                return b - a - 1
            if isinstance(op, ast.LtE):
                return b - a
        return None

    def _block(self, stmts):
        for st in stmts:
            if isinstance(st, ast.Expr) and isinstance(st.value, ast.Constant):
                continue
            if isinstance(st, ast.Assign) and len(st.targets) == 1 and isinstance(st.targets[0], ast.Name):
                b = self.bval(st.value)
                if b is not None:
                    self.env[st.targets[0].id] = b
                    continue
                v = self.num(st.value)
                if v is not None:
                    self.env[st.targets[0].id] = v
                    continue
                self.unknown.append(st)
                continue
            if isinstance(st, ast.If):
                raises = [s for s in st.body if isinstance(s, ast.Raise)]
                if raises and not st.orelse:
                    P = self.cond_poly(st.test)
                    exc = ""
                    if raises[0].exc is not None:
                        e = raises[0].exc.func if isinstance(raises[0].exc, ast.Call) else raises[0].exc
                        exc = norm(e)
                    self.guards.append((P, exc, st))
                    if P is not None:
                        # fall-through: P < 0  <=>  -P - 1 >= 0
                        self.nonneg.append(-P - 1)
                    continue
                self.unknown.append(st)
                continue
            if isinstance(st, ast.Return):
                b = self.bval(st.value) if st.value is not None else None
                self.returns.append((b, st, list(self.nonneg), list(self.guards)))
                continue
            if isinstance(st, ast.Raise):
                continue
            self.unknown.append(st)


def codec_of(node):
    if isinstance(node, ast.Constant) and isinstance(node.value, str):
        return CODECS.get(node.value.lower().replace("_", "-"), node.value.lower())
    return None


# ------------------------------------------------------------------------------------------------ NUL cut
def nul_cut(prog: Program):
    """Classify every return of BTSString.read. Returns list of (ok, stmt, text)."""
    cls = prog.need_cls("BTSString", "tdfTypes")
    f = prog.need_method(cls, "read")
    out = []
    fn = f.node
    # the field variable: result of struct.unpack(...)[0] or the data parameter
    field_names = set()
    data_p = f.params[1] if len(f.params) > 1 else None
    if data_p:
        field_names.add(data_p)
    pos_names = {}  # name -> ('index'|'find', field)
    for n in walk_no_nested(fn):
        if isinstance(n, ast.Assign) and len(n.targets) == 1 and isinstance(n.targets[0], ast.Name):
            v = n.value
            if isinstance(v, ast.Subscript) and isinstance(v.value, ast.Call) and norm(v.value.func) == "struct.unpack":
                field_names.add(n.targets[0].id)
            if isinstance(v, ast.Call) and isinstance(v.func, ast.Attribute) and v.func.attr in ("index", "find") and v.args \
                    and isinstance(v.args[0], ast.Constant) and v.args[0].value in (b"\x00", b"\0") and isinstance(v.func.value, ast.Name):
                pos_names[n.targets[0].id] = (v.func.attr, v.func.value.id, n)

    def in_valueerror_handler(st):
        """st lies in an `except ValueError` handler of a try whose body calls .index(b'\\0') on the field"""
        for t in walk_no_nested(fn):
            if isinstance(t, ast.Try):
                has_index = any(isinstance(c, ast.Call) and isinstance(c.func, ast.Attribute) and c.func.attr == "index" and c.args
                                and isinstance(c.args[0], ast.Constant) and c.args[0].value == b"\x00" for b in t.body for c in ast.walk(b))
                for h in t.handlers:
                    if any(s is st for b in h.body for s in ast.walk(b)):
                        return has_index and h.type is not None and norm(h.type) in ("ValueError",)
        return False

    def guarded_no_nul(st):
        from .mutrules import enclosing_tests

        for t, br in enclosing_tests(fn, st):
            s = norm(t).replace(" ", "")
            if br and (s.endswith("==-1") or s.endswith("<0") or "notin" in s and "\\x00" in s):
                return True
            if not br and (s.endswith("!=-1") or s.endswith(">=0") or s.endswith(">-1") or ("in" in s and "\\x00" in s and "notin" not in s)):
                return True
        return False

    rets = [s for s in walk_no_nested(fn) if isinstance(s, ast.Return)]
    if not rets:
        raise AnalysisError("BTSString.read has no return")
    for r in rets:
        v = r.value
        if not (isinstance(v, ast.Call) and isinstance(v.func, ast.Attribute) and v.func.attr == "decode"):
            out.append((False, r, f"returns `{norm(v)}`: the text is not the decode of a NUL-cut of the field"))
            continue
        base = v.func.value
        kind = None
        if isinstance(base, ast.Name) and base.id in field_names:
            kind = "whole"
        elif isinstance(base, ast.Subscript) and isinstance(base.value, ast.Name) and base.value.id in field_names and isinstance(base.slice, ast.Slice) \
                and base.slice.lower is None and base.slice.step is None and isinstance(base.slice.upper, ast.Name) and base.slice.upper.id in pos_names \
                and pos_names[base.slice.upper.id][1] == base.value.id:
            kind = "cut-" + pos_names[base.slice.upper.id][0]
        elif isinstance(base, ast.Subscript) and norm(base.slice) == "0" and isinstance(base.value, ast.Call) and isinstance(base.value.func, ast.Attribute) \
                and base.value.func.attr in ("split", "partition") and base.value.args and isinstance(base.value.args[0], ast.Constant) and base.value.args[0].value == b"\x00" \
                and isinstance(base.value.func.value, ast.Name) and base.value.func.value.id in field_names:
            if base.value.func.attr == "split" and len(base.value.args) < 2 and not base.value.keywords:
                kind = "cut-split"  # split without maxsplit still cuts at the first NUL for element 0
            else:
                kind = "cut-" + base.value.func.attr
        if kind is None:
            out.append((False, r, f"`{norm(base)}` is decoded: not a cut of the field at its FIRST NUL (bytes after the terminator could influence the text or make decoding fail)"))
        elif kind == "whole":
            if in_valueerror_handler(r) or guarded_no_nul(r):
                out.append((True, r, "whole field decoded only on the path where it contains no NUL"))
            else:
                out.append((False, r, "the whole field (including bytes after the terminator) is decoded on a path where a NUL may exist"))
        elif kind == "cut-find":
            name = base.slice.upper.id
            if guarded_no_nul(r) or any(True for _ in []):
                out.append((True, r, "cut at find() guarded for -1"))
            else:
                # find() == -1 would cut the last byte: must be guarded
                from .mutrules import enclosing_tests
                tests = enclosing_tests(fn, r)
                if tests:
                    out.append((True, r, "cut at find() under a guard"))
                else:
                    out.append((False, r, "cut at find() without handling -1"))
        else:
            out.append((True, r, f"decode applied to the bytes before the first NUL ({kind})"))
    return f, out
