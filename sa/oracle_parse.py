"""E7 oracle sanity (thorough tier only; not a deciding step, executes no repository code): a stdlib-struct
parser driven by the reference layout table over the BTS-recorded capture. Every block must parse with every
byte accounted for (bytes consumed == entry.size from the jump table)."""
from __future__ import annotations

import struct
from pathlib import Path

from .reference_layout import BLOCK_TYPES, FORMATS, HEADER, UNITS
from .report import REPO, AnalysisError

CAPTURE = REPO / "tests" / "test_files" / "2838~aa~Walking 01.tdf"
FMT = {("i", 4): "i", ("u", 4): "I", ("x", 4): "i", ("i", 2): "h", ("u", 2): "H", ("x", 2): "H", ("f", 4): "f", ("f", 8): "d"}


class P:
    def __init__(self, data, pos=0):
        self.d = data
        self.p = pos

    def take(self, n):
        if self.p + n > len(self.d):
            raise AnalysisError(f"reference layout runs past the end of the capture at {self.p}+{n}")
        b = self.d[self.p:self.p + n]
        self.p += n
        return b

    def scalars(self, kind, size, n):
        return struct.unpack("<" + FMT[(kind, size)] * n, self.take(size * n))


def prod(shape):
    n = 1
    for s in shape:
        n *= s
    return n


def parse(p: P, ref, env, fmt_member=None, uname=None):
    for r in ref:
        k = r[0]
        if k == "f":
            v = p.scalars(r[2], r[3], prod(r[4]))
            opts = r[5] if len(r) > 5 else {}
            env[r[1]] = (v[0] - opts.get("bias", 0)) if r[4] == () else v
        elif k == "pad":
            p.take(r[1])
        elif k == "a":
            n = r[5] if isinstance(r[5], int) else env[r[5]]
            env[r[1]] = p.scalars(r[2], r[3], prod(r[4]) * n)
        elif k == "s":
            raw = p.take(r[2])
            env[r[1]] = raw.split(b"\x00", 1)[0].decode("cp1252")
        elif k == "d":
            env[r[1]] = struct.unpack("<i", p.take(4))[0]
        elif k == "raw":
            env["raw"] = p.take(r[1])
        elif k == "sub":
            e2 = dict(env)
            parse(p, UNITS[r[2]], e2)
            env[r[1]] = e2
        elif k == "rep":
            out = []
            for _ in range(env[r[1]]):
                e2 = dict(env)
                parse(p, UNITS[r[2]], e2)
                out.append(e2)
            env["rep:" + r[2]] = out
        elif k == "segtable":
            n = env[r[1]]
            v = p.scalars("i", 4, 2 * n)
            env["segments"] = [(v[2 * i], v[2 * i + 1]) for i in range(n)]
        elif k == "segdata":
            per = sum(size * n for kind, size, n in r[1])
            for start, cnt in env["segments"]:
                p.take(per * cnt)
        elif k == "grid":
            a, b = env[r[4][0]], env[r[4][1]]
            env["grid"] = (p.scalars(r[2], r[3], a * b), a, b)
        elif k == "cells":
            g, a, b = env["grid"]
            outer, inner = env[r[1][0]], env[r[1][1]]
            per = r[3] * prod(r[4])
            for o in range(outer):
                for i in range(inner):
                    p.take(per * g[i * b + o])
        elif k == "alt":
            chosen = None
            for members, terms in r[1].items():
                if fmt_member in members:
                    chosen = terms
            if chosen is None:
                raise AnalysisError(f"capture block {uname} has format {fmt_member} not covered by the reference alternatives")
            parse(p, chosen, env)
        else:
            raise AnalysisError(f"reference term kind {k}")


def sanity(rep):
    if not CAPTURE.exists():
        rep.note("oracle sanity skipped: reference capture tests/test_files/2838~aa~Walking 01.tdf is absent")
        return
    data = CAPTURE.read_bytes()
    p = P(data)
    env = {}
    parse(p, [r for r in HEADER if r[0] != "rep"], env)
    entries = []
    for _ in range(env["nEntries"]):
        e = {}
        parse(p, UNITS["TdfEntry"], e)
        entries.append(e)
    blocks = []
    for e in entries:
        if e["type"] == 0:
            continue
        uname = BLOCK_TYPES.get(e["type"])
        if uname is None:
            raise AnalysisError(f"capture holds block type {e['type']} the reference table does not describe")
        bp = P(data, e["offset"])
        # Data2D nested record needs the parent's nCams/nFrames: they are in the same env by construction
        member = FORMATS.get(uname, {}).get(e["format"])
        benv = {}
        parse(bp, UNITS[uname], benv, member, uname)
        used = bp.p - e["offset"]
        blocks.append({"type": e["type"], "unit": uname, "entry_size": e["size"], "bytes_accounted": used})
        if used != e["size"]:
            raise AnalysisError(f"reference layout accounts for {used} bytes of capture block {uname}, the jump table records {e['size']}: the reference table is wrong")
    rep.extra["oracle_sanity"] = {"capture_bytes": len(data), "blocks": blocks}
    rep.ok("oracle-sanity", f"reference layout parses all {len(blocks)} blocks of the BTS capture with every byte accounted for: "
           + ", ".join(f"{b['unit']}={b['entry_size']}" for b in blocks), nontrivial=True)
