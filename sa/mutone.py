"""Development aid: run checks on single campaign mutants selected by a substring of their description.
    python -m sa.mutone 'basictdf.py:215 negate' [C11 C04 ...]"""
import os, shutil, subprocess, sys, tempfile
from pathlib import Path
from .mutcampaign import mutants_of, ALL, PY
from .report import REPO, VERIF

def run_one(fname, code, props):
    tmp = Path(tempfile.mkdtemp(prefix="basictdf-m1-"))
    try:
        shutil.copytree(REPO / "src", tmp / "src", ignore=shutil.ignore_patterns("__pycache__", "*.egg-info"))
        (tmp / "src" / "basictdf" / fname).write_text(code)
        env = dict(os.environ); env["SA_REPO"] = str(tmp); env["SA_OUT"] = str(tmp / "evidence")
        procs = {c: subprocess.Popen([PY, "-B", "-m", "sa.run", c, "quick"], cwd=str(VERIF), env=env, stdout=subprocess.PIPE, stderr=subprocess.STDOUT, text=True) for c in props}
        out = {}
        for c, pr in procs.items():
            o, _ = pr.communicate(timeout=300)
            out[c] = (pr.returncode, o)
        return out
    finally:
        shutil.rmtree(tmp, ignore_errors=True)

if __name__ == "__main__":
    pat = sys.argv[1]
    props = [a.upper() for a in sys.argv[2:]] or ALL
    fname = pat.split(":")[0]
    for desc, code in mutants_of(REPO / "src" / "basictdf" / fname):
        if pat in desc:
            res = run_one(fname, code, props)
            fl = [c for c, (rc, _) in res.items() if rc == 1]
            un = [c for c, (rc, _) in res.items() if rc == 2]
            print(f"{desc[:110]:110s} flagged={fl} undecided={un}")
            for c in fl[:2]:
                lines = [l.strip() for l in res[c][1].splitlines() if l.startswith("  ") and "rule=" in l]
                print("      ", c, lines[0][:200] if lines else "")
