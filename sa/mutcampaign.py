"""Development aid (not part of any check): a mutation campaign over /repo/src/basictdf.
Generates single-site AST mutants, keeps those that still compile and pass the 39 baseline tests (the tests are used only as
the filter 'a realistic change must survive them'), runs all 20 static checks on each survivor and lists the survivors no check
reports - candidates for either 'equivalent mutant' or 'rule gap', triaged by hand.
    python -m sa.mutcampaign [--files a.py,b.py] [--max N] [--jobs 16] > report.json
"""
from __future__ import annotations

import ast
import copy
import json
import os
import shutil
import subprocess
import sys
import tempfile
from concurrent.futures import ThreadPoolExecutor
from pathlib import Path

from .report import REPO, VERIF

PY = "/venv/bin/python"
ALL = [f"C{n:02d}" for n in range(1, 21)]
CMP = {ast.Eq: ast.NotEq, ast.NotEq: ast.Eq, ast.Lt: ast.LtE, ast.LtE: ast.Lt, ast.Gt: ast.GtE, ast.GtE: ast.Gt,
       ast.Is: ast.IsNot, ast.IsNot: ast.Is, ast.In: ast.NotIn, ast.NotIn: ast.In}


def mutants_of(path: Path):
    src = path.read_text()
    tree = ast.parse(src)
    out = []
    nodes = list(ast.walk(tree))

    def emit(desc, mutate):
        t = copy.deepcopy(tree)
        ns = list(ast.walk(t))
        try:
            mutate(ns)
            code = ast.unparse(t)
            compile(code, str(path), "exec")
        except Exception:
            return
        out.append((desc, code))

    for i, n in enumerate(nodes):
        ln = getattr(n, "lineno", 0)
        if isinstance(n, ast.Compare) and len(n.ops) == 1 and type(n.ops[0]) in CMP:
            emit(f"{path.name}:{ln} compare {type(n.ops[0]).__name__}->{CMP[type(n.ops[0])].__name__} `{ast.unparse(n)[:60]}`",
                 lambda ns, i=i: setattr(ns[i], "ops", [CMP[type(ns[i].ops[0])]()]))
        if isinstance(n, ast.Constant) and isinstance(n.value, int) and not isinstance(n.value, bool) and 0 <= n.value <= 300:
            for d in (1, -1):
                if n.value + d < 0:
                    continue
                emit(f"{path.name}:{ln} const {n.value}->{n.value + d}", lambda ns, i=i, d=d: setattr(ns[i], "value", ns[i].value + d))
        if isinstance(n, ast.BinOp) and isinstance(n.op, (ast.Add, ast.Sub)):
            new = ast.Sub if isinstance(n.op, ast.Add) else ast.Add
            emit(f"{path.name}:{ln} binop {type(n.op).__name__}->{new.__name__} `{ast.unparse(n)[:60]}`", lambda ns, i=i, new=new: setattr(ns[i], "op", new()))
        if isinstance(n, ast.BoolOp):
            new = ast.Or if isinstance(n.op, ast.And) else ast.And
            emit(f"{path.name}:{ln} boolop {type(n.op).__name__}->{new.__name__} `{ast.unparse(n)[:60]}`", lambda ns, i=i, new=new: setattr(ns[i], "op", new()))
        if isinstance(n, ast.Constant) and isinstance(n.value, bool):
            emit(f"{path.name}:{ln} bool {n.value}->{not n.value}", lambda ns, i=i: setattr(ns[i], "value", not ns[i].value))
        if isinstance(n, ast.If):
            emit(f"{path.name}:{ln} negate if `{ast.unparse(n.test)[:60]}`", lambda ns, i=i: setattr(ns[i], "test", ast.UnaryOp(op=ast.Not(), operand=ns[i].test)))
        if isinstance(n, ast.Call) and len(n.args) >= 2 and not any(isinstance(a, ast.Starred) for a in n.args):
            for k in range(len(n.args) - 1):
                if ast.unparse(n.args[k]) != ast.unparse(n.args[k + 1]):
                    def sw(ns, i=i, k=k):
                        a = ns[i].args
                        a[k], a[k + 1] = a[k + 1], a[k]
                    emit(f"{path.name}:{ln} swap args {k},{k + 1} `{ast.unparse(n)[:60]}`", sw)
        if isinstance(n, (ast.FunctionDef, ast.For, ast.If, ast.With, ast.Try)):
            body = n.body
            for k, st in enumerate(body):
                if isinstance(st, (ast.Expr, ast.Assign, ast.AugAssign)) and not (isinstance(st, ast.Expr) and isinstance(st.value, ast.Constant)):
                    def dele(ns, i=i, k=k):
                        ns[i].body[k] = ast.Pass()
                    emit(f"{path.name}:{getattr(st, 'lineno', 0)} delete `{ast.unparse(st)[:60]}`", dele)
            for k in range(len(body) - 1):
                a, b = body[k], body[k + 1]
                if isinstance(a, (ast.Expr, ast.Assign)) and isinstance(b, (ast.Expr, ast.Assign)) and not (isinstance(a, ast.Expr) and isinstance(a.value, ast.Constant)):
                    def swp(ns, i=i, k=k):
                        bd = ns[i].body
                        bd[k], bd[k + 1] = bd[k + 1], bd[k]
                    emit(f"{path.name}:{getattr(a, 'lineno', 0)} swap stmts `{ast.unparse(a)[:40]}` <-> `{ast.unparse(b)[:40]}`", swp)
    return out


KNOWN_SURVIVORS = None  # descriptions of mutants already known to pass the tests (skips the test run)


def evaluate(job):
    fname, desc, code = job
    tmp = Path(tempfile.mkdtemp(prefix="basictdf-mc-"))
    try:
        shutil.copytree(REPO / "src", tmp / "src", ignore=shutil.ignore_patterns("__pycache__", "*.egg-info"))
        (tmp / "src" / "basictdf" / fname).write_text(code)
        env = dict(os.environ)
        env["PYTHONPATH"] = str(tmp / "src")
        env["PYTHONDONTWRITEBYTECODE"] = "1"
        if KNOWN_SURVIVORS is not None:
            if desc not in KNOWN_SURVIVORS:
                return {"desc": desc, "tests": "killed"}
            p = None
        else:
            p = subprocess.run([PY, "-m", "pytest", "-q", "-x", "-p", "no:cacheprovider", "--continue-on-collection-errors", "--ignore", str(REPO / "tests" / "test_Tdf.py"), str(REPO / "tests")],
                           cwd=str(tmp), env=env, capture_output=True, text=True, timeout=300)
        if p is not None:
            tail = p.stdout.strip().splitlines()[-1] if p.stdout.strip() else ""
            if not tail.startswith("39 passed"):
                return {"desc": desc, "tests": "killed"}
        env2 = dict(os.environ)
        env2["SA_REPO"] = str(tmp)
        env2["SA_OUT"] = str(tmp / "evidence")
        flagged, undecided = [], []
        start = lambda c: subprocess.Popen([PY, "-B", "-m", "sa.run", c, "quick"], cwd=str(VERIF), env=env2, stdout=subprocess.PIPE, stderr=subprocess.STDOUT, text=True)
        first = start(ALL[0])       # computes and caches the normal forms of this mutant; the others read them
        first.communicate(timeout=600)
        done = {ALL[0]: first}
        rest = ALL[1:]
        for i in range(0, len(rest), 5):
            procs = {c: start(c) for c in rest[i:i + 5]}
            for c, pr in procs.items():
                pr.communicate(timeout=600)
            done.update(procs)
        for c, pr in done.items():
            if pr.returncode == 1:
                flagged.append(c)
            elif pr.returncode == 2:
                undecided.append(c)
        return {"desc": desc, "tests": "survived", "flagged": flagged, "undecided": undecided}
    except Exception as e:  # noqa
        return {"desc": desc, "tests": "error", "error": str(e)[:200]}
    finally:
        shutil.rmtree(tmp, ignore_errors=True)


ONLY = set()


def main(argv):
    files = None
    mx = None
    jobs = 8
    for i, a in enumerate(argv):
        if a == "--files":
            files = argv[i + 1].split(",")
        if a == "--max":
            mx = int(argv[i + 1])
        if a == "--jobs":
            jobs = int(argv[i + 1])
        if a in ("--survivors", "--only-unflagged"):
            global KNOWN_SURVIVORS
        if a == "--survivors":
            d = json.load(open(argv[i + 1]))
            KNOWN_SURVIVORS = {r["desc"] for r in d["unflagged"] + d["flagged"]}
        if a == "--only-unflagged":
            # re-run the checks on the survivors no check reported in an earlier campaign (everything else is skipped)
            d = json.load(open(argv[i + 1]))
            ONLY.update(r["desc"] for r in d["unflagged"])
            KNOWN_SURVIVORS = set(ONLY)
    work = []
    for p in sorted((REPO / "src" / "basictdf").glob("*.py")):
        if p.name == "__init__.py" or (files and p.name not in files):
            continue
        for desc, code in mutants_of(p):
            if ONLY and desc not in ONLY:
                continue
            work.append((p.name, desc, code))
    if mx:
        import random
        random.Random(int(os.environ.get("VERIF_SEED", "1"))).shuffle(work)
        work = work[:mx]
    print(f"{len(work)} mutants", file=sys.stderr)
    res = []
    with ThreadPoolExecutor(max_workers=jobs) as ex:
        for n, r in enumerate(ex.map(evaluate, work)):
            res.append(r)
            if n % 50 == 0:
                print(n, file=sys.stderr)
    surv = [r for r in res if r["tests"] == "survived"]
    unfl = [r for r in surv if not r["flagged"]]
    json.dump({"mutants": len(res), "survived_tests": len(surv), "flagged_by_some_check": len(surv) - len(unfl),
               "unflagged": unfl, "flagged": [r for r in surv if r["flagged"]]}, sys.stdout, indent=1)


if __name__ == "__main__":
    main(sys.argv[1:])
