"""Development aid: run all 20 checks on behaviour-preserving refactorings (unified diffs) and list every alarm.
    python -m sa.eval_refactors /tmp/wt 'R??/refactors/r*.diff'
"""
from __future__ import annotations

import glob
import json
import sys
from concurrent.futures import ThreadPoolExecutor
from pathlib import Path

from .try_patch import ALL, run


def one(diff):
    try:
        res = run(diff, ALL)
    except Exception as e:  # noqa
        return diff, {"error": str(e)[:200]}
    out = {}
    for p, (code, o) in res.items():
        if code != 0:
            lines = [l.strip() for l in o.splitlines() if (l.startswith("  ") and "rule=" in l) or l.startswith("ANALYSIS-ERROR")]
            out[p] = {"exit": code, "lines": lines[:3]}
    return diff, out


if __name__ == "__main__":
    root, pat = sys.argv[1], sys.argv[2]
    diffs = sorted(glob.glob(str(Path(root) / pat)))
    bad = 0
    known_residual = 0
    from .report import VERIF
    rfile = VERIF / "refactorings" / "RESIDUAL.json"
    residual = {d["diff"] for d in json.loads(rfile.read_text())["residual"]} if rfile.exists() else set()
    with ThreadPoolExecutor(max_workers=int(__import__("os").environ.get("SA_EVAL_JOBS", "3"))) as ex:
        for diff, out in ex.map(one, diffs):
            name = "/".join(Path(diff).parts[-3:])
            if not out:
                print(f"[silent ] {name}")
            else:
                bad += 1
                if Path(diff).name in residual and str(VERIF) in str(Path(diff).resolve()):
                    known_residual += 1
                    print(f"[RESIDUAL] {name}   (documented in refactorings/RESIDUAL.json)")
                    continue
                print(f"[ALARM  ] {name}")
                for p, v in out.items() if "error" not in out else []:
                    for l in v["lines"][:2]:
                        print(f"      {p} exit={v['exit']} {l[:230]}")
                if "error" in out:
                    print("      ", out["error"])
    print(f"{len(diffs)} refactorings, {bad} with alarms/undecided ({known_residual} of them documented residuals)")
