"""Development aid: print the normalised form of a function.   python -m sa.shownorm basictdf Tdf.add_block"""
import ast, sys, difflib
from .index import Program
from .report import SRC
import os
if __name__ == "__main__":
    mod, qual = sys.argv[1], sys.argv[2] if len(sys.argv) > 2 else None
    p = Program()
    tree = p.modules[mod].tree
    if qual is None or qual == "--diff":
        raw = ast.unparse(ast.parse((p.src / f"{mod}.py").read_text()))
        new = ast.unparse(tree)
        print("\n".join(difflib.unified_diff(raw.splitlines(), new.splitlines(), lineterm="", n=1)))
    else:
        parts = qual.split(".")
        node = tree
        for part in parts:
            node = next(s for s in node.body if isinstance(s, (ast.ClassDef, ast.FunctionDef)) and s.name == part)
        print(ast.unparse(node))
