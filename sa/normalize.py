"""Normalisation pre-pass (AST -> AST, analysis only; nothing is executed).

Maintainers' refactorings that do not change behaviour - named constants for magic numbers, private helper
functions/methods, `continue`-style loop bodies, loops over literal tuples - are undone before the rules look at the code,
so that the rules speak about behaviour-relevant structure and not about one way of spelling it:

  N1  named constants (module level and class level, assigned once, constant expression) are substituted at their uses;
  N2  private helpers (`_name`, not the codec methods) are inlined at their call sites: expression helpers as expressions,
      statement helpers as statements (returns in tail position become assignments), `return helper(...)` as a tail call;
      a helper all of whose call sites were inlined is dropped from the tree;
  N3  `if c: continue` at the top of a loop body becomes `if not c: <rest>`;
  N4  `for x in (a, b, c): body` over a literal tuple/list of at most 8 elements is unrolled.
"""
from __future__ import annotations

import ast
import copy
import itertools

PROTECTED = {"_write", "_build", "_segments", "_get_segment_data", "_get_block_class", "__init__", "_inside_context", "_mode"}
KEEP_NAMES = {"SIGNATURE", "__all__", "__doc__", "__pdoc__", "type", "nBytes", "format"}
_counter = itertools.count(1)


# ------------------------------------------------------------------------------------------- N1 constants
_ENUM_VALUES = {}   # enum classes defined in the module being normalised: class -> {member: literal value}
_MODULE_CLASSES = set()   # class names bound exactly once at module level of the module being normalised (set by collect_constants)


def is_const_expr(n, known):
    if isinstance(n, ast.Constant) and isinstance(n.value, (int, str, bytes, bool, float)) and not (isinstance(n.value, bytes) and len(n.value) > 8):
        return True
    if isinstance(n, ast.UnaryOp) and isinstance(n.op, (ast.USub, ast.UAdd)):
        return is_const_expr(n.operand, known)
    if isinstance(n, ast.BinOp) and isinstance(n.op, (ast.Add, ast.Sub, ast.Mult, ast.FloorDiv)):
        return is_const_expr(n.left, known) and is_const_expr(n.right, known)
    if isinstance(n, ast.Lambda) and not n.args.defaults and not n.args.kw_defaults and not n.args.vararg and not n.args.kwarg:
        # a closed function value: nothing but its parameters and module-level names
        params = {a.arg for a in n.args.args + n.args.kwonlyargs}
        return not any(isinstance(x, (ast.Lambda, ast.NamedExpr, ast.Yield, ast.Await)) for x in ast.walk(n.body)) and \
            not any(isinstance(x, ast.Name) and isinstance(x.ctx, ast.Store) for x in ast.walk(n.body)) and bool(params)
    if isinstance(n, (ast.Tuple, ast.List)) and n.elts and len(n.elts) <= 8:
        # tuples of constants, enum members, module-level objects (codecs, classes) and nested such tuples
        return all(is_const_expr(e, known) or _enum_member(e) or isinstance(e, ast.Name)
                   or (isinstance(e, ast.Attribute) and isinstance(e.value, ast.Name) and e.value.id not in ("self", "cls")) for e in n.elts)
    if isinstance(n, ast.Name) and n.id in known:
        return True
    # bytes(N): N zero bytes, an immutable value
    if isinstance(n, ast.Call) and isinstance(n.func, ast.Name) and n.func.id == "bytes" and len(n.args) == 1 and not n.keywords and isinstance(n.args[0], ast.Constant) \
            and type(n.args[0].value) is int and 0 <= n.args[0].value <= 65536:
        return True
    # numpy's named float constants (np.nan, np.NaN, np.inf, np.pi ..): immutable values of the numpy module
    if isinstance(n, ast.Attribute) and isinstance(n.value, ast.Name) and n.value.id in ("np", "numpy", "math") and n.attr in ("nan", "NaN", "NAN", "inf", "Inf", "Infinity", "pi", "e", "newaxis"):
        return True
    if isinstance(n, ast.Name) and n.id in _MODULE_CLASSES:
        return True          # another name for a class of the module (defined or imported once at module level)
    if _enum_member(n) and n.value.id in _MODULE_CLASSES:
        return True          # another name for a member of a class of the module (an enum member: `_UNUSED = BlockType.unusedSlot`)
    if isinstance(n, ast.Dict) and n.keys and len(n.keys) <= 24 and all(k is not None and (isinstance(k, ast.Constant) or _enum_member(k)) for k in n.keys) \
            and all(isinstance(v, (ast.Name, ast.Constant)) or (isinstance(v, ast.Attribute) and isinstance(v.value, ast.Name) and v.value.id not in ("self", "cls")) for v in n.values):
        return True  # a dispatch table
    if isinstance(n, ast.Call) and ast.unparse(n.func) in ("np.dtype", "numpy.dtype") and len(n.args) == 1 and isinstance(n.args[0], ast.Constant):
        return True
    # <codec>.nBytes() / <codec>.nBytes(3) / <codec>.btype.itemsize: the byte size of a module-level codec object
    if isinstance(n, ast.Call) and isinstance(n.func, ast.Attribute) and n.func.attr == "nBytes" and isinstance(n.func.value, ast.Name) and not n.keywords \
            and len(n.args) <= 1 and all(isinstance(a, ast.Constant) and isinstance(a.value, int) for a in n.args):
        return True
    if isinstance(n, ast.Attribute) and n.attr == "itemsize" and isinstance(n.value, ast.Attribute) and n.value.attr == "btype" and isinstance(n.value.value, ast.Name):
        return True
    if isinstance(n, ast.Call) and ast.unparse(n.func) in ("attrgetter", "operator.attrgetter", "itemgetter", "operator.itemgetter", "struct.Struct", "Struct") \
            and len(n.args) == 1 and isinstance(n.args[0], ast.Constant) and not n.keywords:
        return True
    if isinstance(n, ast.Call) and ast.unparse(n.func) in ("attrgetter", "operator.attrgetter", "methodcaller", "operator.methodcaller", "itemgetter", "operator.itemgetter") \
            and 1 < len(n.args) <= 8 and all(isinstance(a, ast.Constant) for a in n.args) and not n.keywords:
        return True
    if isinstance(n, ast.Call) and ast.unparse(n.func) in ("partial", "functools.partial") and n.args and isinstance(n.args[0], ast.Attribute) and isinstance(n.args[0].value, ast.Name) \
            and n.args[0].value.id in ("np", "numpy") and not n.args[1:] and all(isinstance(k.value, ast.Constant) for k in n.keywords):
        return True  # partial(np.allclose, equal_nan=True)
    return False


def _enum_member(e):
    return isinstance(e, ast.Attribute) and isinstance(e.value, ast.Name) and e.value.id[:1].isupper() and not e.attr.startswith("_")


def const_name_ok(name, class_level):
    if name in KEEP_NAMES or name.startswith("__"):
        return False
    if class_level:
        return name.startswith("_") or name.isupper()
    return name.startswith("_") or name.isupper()


def _fold_augmented(body):
    """X = A ... X += B  (same block, X not read in between)  ==>  X = A + B at the place of the `+=`.  Returns the names that are
    still augmented afterwards (those are not constants)."""
    changed = True
    while changed:
        changed = False
        for j, st in enumerate(body):
            if isinstance(st, ast.AugAssign) and isinstance(st.target, ast.Name) and isinstance(st.op, ast.Add):
                x = st.target.id
                i = next((k for k in range(j - 1, -1, -1) if isinstance(body[k], ast.Assign) and len(body[k].targets) == 1 and isinstance(body[k].targets[0], ast.Name)
                          and body[k].targets[0].id == x), None)
                if i is None:
                    continue
                between = body[i + 1:j]
                if any(isinstance(n, ast.Name) and n.id == x for b in between for n in ast.walk(b)) or any(isinstance(n, ast.Name) and n.id == x for n in ast.walk(st.value)):
                    continue
                new = ast.copy_location(ast.Assign(targets=[ast.Name(id=x, ctx=ast.Store())], value=ast.BinOp(left=body[i].value, op=ast.Add(), right=st.value), lineno=st.lineno), st)
                ast.fix_missing_locations(new)
                body[j] = new
                del body[i]
                changed = True
                break
    return {st.target.id for st in body if isinstance(st, ast.AugAssign) and isinstance(st.target, ast.Name)}


def collect_constants(tree: ast.Module):
    """({module const name: value node}, {class name: {const name: value node}})"""
    mod = {}
    counts = {}
    _MODULE_CLASSES.clear()
    _ENUM_VALUES.clear()
    for st in tree.body:
        if isinstance(st, ast.ClassDef) and any(ast.unparse(b) in ("Enum", "IntEnum", "enum.Enum", "enum.IntEnum") for b in st.bases):
            vals = {}
            for s_ in st.body:
                if isinstance(s_, ast.Assign) and len(s_.targets) == 1 and isinstance(s_.targets[0], ast.Name) and isinstance(s_.value, ast.Constant):
                    vals[s_.targets[0].id] = s_.value.value
            _ENUM_VALUES[st.name] = vals
    bound = {}
    for st in tree.body:
        for nm in ([st.name] if isinstance(st, (ast.ClassDef, ast.FunctionDef)) else [a.asname or a.name for a in st.names] if isinstance(st, ast.ImportFrom)
                   else [t.id for t in st.targets if isinstance(t, ast.Name)] if isinstance(st, ast.Assign) else []):
            bound[nm] = bound.get(nm, 0) + 1
    for st in tree.body:
        for nm in ([st.name] if isinstance(st, ast.ClassDef) else [a.asname or a.name for a in st.names] if isinstance(st, ast.ImportFrom) else []):
            if nm[:1].isupper() and bound.get(nm) == 1:
                _MODULE_CLASSES.add(nm)
    aug_mod = _fold_augmented(tree.body)
    for a in aug_mod:
        counts[a] = 2
    for st in tree.body:
        targets = []
        if isinstance(st, ast.Assign):
            targets = [t.id for t in st.targets if isinstance(t, ast.Name)]
        elif isinstance(st, ast.AnnAssign) and isinstance(st.target, ast.Name) and st.value is not None:
            targets = [st.target.id]
        for t in targets:
            counts[t] = counts.get(t, 0) + 1
    for st in tree.body:
        if isinstance(st, ast.Assign) and len(st.targets) == 1 and isinstance(st.targets[0], ast.Name):
            n = st.targets[0].id
            if counts.get(n) == 1 and const_name_ok(n, False) and is_const_expr(st.value, mod):
                mod[n] = st.value
        elif isinstance(st, ast.AnnAssign) and isinstance(st.target, ast.Name) and st.value is not None:
            n = st.target.id
            if counts.get(n) == 1 and const_name_ok(n, False) and is_const_expr(st.value, mod):
                mod[n] = st.value
    # names rebound anywhere via `global`
    for n in ast.walk(tree):
        if isinstance(n, ast.Global):
            for g in n.names:
                mod.pop(g, None)
    classes = {}
    for st in tree.body:
        if isinstance(st, ast.ClassDef):
            if any(ast.unparse(b) in ("Enum", "IntEnum", "enum.Enum", "enum.IntEnum") for b in st.bases):
                continue
            d = {}
            aug_cls = _fold_augmented(st.body)
            ccount = {}
            for s in st.body:
                for t in (s.targets if isinstance(s, ast.Assign) else [s.target] if isinstance(s, ast.AnnAssign) and s.value is not None else []):
                    for x in ast.walk(t):
                        if isinstance(x, ast.Name):
                            ccount[x.id] = ccount.get(x.id, 0) + 1
            for s in st.body:
                if isinstance(s, ast.Assign) and len(s.targets) == 1 and isinstance(s.targets[0], ast.Name):
                    n = s.targets[0].id
                    if const_name_ok(n, True) and n not in aug_cls and ccount.get(n) == 1 and is_const_expr(s.value, {**mod, **d}):
                        d[n] = s.value
                elif isinstance(s, ast.AnnAssign) and isinstance(s.target, ast.Name) and s.value is not None:
                    n = s.target.id
                    if const_name_ok(n, True) and n not in aug_cls and ccount.get(n) == 1 and is_const_expr(s.value, {**mod, **d}):
                        d[n] = s.value
            # a constant assigned through self/cls anywhere is not a constant
            for n in ast.walk(st):
                if isinstance(n, ast.Attribute) and isinstance(n.ctx, ast.Store) and n.attr in d:
                    d.pop(n.attr, None)
            if d:
                classes[st.name] = d
    return mod, classes


class ConstSubst(ast.NodeTransformer):
    def __init__(self, mod, classes, bases):
        self.mod, self.classes, self.bases = mod, classes, bases
        self.cls = None
        self.shadow = [set()]

    def _class_consts(self, cname):
        out = {}
        seen = set()
        stack = [cname]
        while stack:
            c = stack.pop()
            if c in seen:
                continue
            seen.add(c)
            for k, v in self.classes.get(c, {}).items():
                out.setdefault(k, v)
            stack += self.bases.get(c, [])
        return out

    def visit_ClassDef(self, node):
        prev = self.cls
        prev_depth = getattr(self, "cls_depth", -1)
        self.cls = node.name
        self.cls_depth = len(self.shadow)
        self.generic_visit(node)
        self.cls = prev
        self.cls_depth = prev_depth
        return node

    def visit_FunctionDef(self, node):
        local = {a.arg for a in node.args.posonlyargs + node.args.args + node.args.kwonlyargs}
        for n in ast.walk(node):
            if isinstance(n, ast.Name) and isinstance(n.ctx, ast.Store):
                local.add(n.id)
        self.shadow.append(local)
        self.generic_visit(node)
        self.shadow.pop()
        return node

    visit_AsyncFunctionDef = visit_FunctionDef

    def visit_Name(self, node):
        # a bare name in the class body (not inside a method) is the class-level constant of that name
        if isinstance(node.ctx, ast.Load) and self.cls is not None and len(self.shadow) == self.cls_depth and node.id in self.classes.get(self.cls, {}):
            return ast.copy_location(self.visit(copy.deepcopy(self.classes[self.cls][node.id])), node)
        if isinstance(node.ctx, ast.Load) and node.id in self.mod and node.id not in self.shadow[-1]:
            return ast.copy_location(self.visit(copy.deepcopy(self.mod[node.id])), node)
        return node

    def visit_Attribute(self, node):
        self.generic_visit(node)
        if isinstance(node.ctx, ast.Load) and isinstance(node.value, ast.Name):
            owner = None
            if node.value.id in ("self", "cls") and self.cls is not None:
                owner = self.cls
            elif node.value.id in self.classes or node.value.id in self.bases:
                owner = node.value.id
            if owner is not None:
                cc = self._class_consts(owner)
                if node.attr in cc:
                    return ast.copy_location(self.visit(copy.deepcopy(cc[node.attr])), node)
        return node


# ------------------------------------------------------------------------------------------- N2 helpers
def contains_return(stmts):
    for st in stmts:
        for n in ast.walk(st):
            if isinstance(n, (ast.FunctionDef, ast.Lambda)):
                continue
            if isinstance(n, ast.Return):
                return True
    return False


def always_exits(stmts):
    if not stmts:
        return False
    last = stmts[-1]
    if isinstance(last, (ast.Return, ast.Raise)):
        return True
    if isinstance(last, ast.If):
        return bool(last.orelse) and always_exits(last.body) and always_exits(last.orelse)
    return False


def strip_doc(body):
    if body and isinstance(body[0], ast.Expr) and isinstance(body[0].value, ast.Constant) and isinstance(body[0].value.value, str):
        return body[1:]
    return body


def inline_private_properties(tree):
    """self._name where _name is a private read-only property consisting of one return: its expression (the `_segments` run
    derivation, which rules address by name, is left alone)"""
    n = 0
    for cls in [st for st in tree.body if isinstance(st, ast.ClassDef)]:
        props = {}
        public = set()
        for s_ in cls.body:
            if isinstance(s_, ast.FunctionDef) and s_.name.startswith("_") and not s_.name.startswith("__") and s_.name not in PROTECTED \
                    and [ast.unparse(d) for d in s_.decorator_list] == ["property"] and len(s_.args.args) == 1:
                body = strip_doc(s_.body)
                if len(body) == 1 and isinstance(body[0], ast.Return) and body[0].value is not None:
                    props[s_.name] = (s_.args.args[0].arg, body[0].value, s_)
            # public COUNT properties (`return len(self.<attr>)`): inside the class, self.<name> is that count (the property stays)
            elif isinstance(s_, ast.FunctionDef) and not s_.name.startswith("_") and [ast.unparse(d) for d in s_.decorator_list] == ["property"] and len(s_.args.args) == 1:
                body = strip_doc(s_.body)
                if len(body) == 1 and isinstance(body[0], ast.Return) and isinstance(body[0].value, ast.Call) and ast.unparse(body[0].value.func) == "len" \
                        and len(body[0].value.args) == 1 and isinstance(body[0].value.args[0], ast.Attribute) and isinstance(body[0].value.args[0].value, ast.Name) \
                        and body[0].value.args[0].value.id == s_.args.args[0].arg:
                    props[s_.name] = (s_.args.args[0].arg, body[0].value, s_)
                    public.add(s_.name)
        if not props:
            continue
        # no setter for them
        for s_ in cls.body:
            if isinstance(s_, ast.FunctionDef) and any(ast.unparse(d).endswith(".setter") for d in s_.decorator_list):
                props.pop(s_.name, None)

        class P(ast.NodeTransformer):
            def __init__(self, selfname):
                self.selfname = selfname

            def visit_Attribute(self, node):
                self.generic_visit(node)
                if isinstance(node.ctx, ast.Load) and isinstance(node.value, ast.Name) and node.value.id == self.selfname and node.attr in props:
                    sn, expr, _ = props[node.attr]
                    return ast.copy_location(_subst_names(expr, {sn: ast.Name(id=self.selfname, ctx=ast.Load())}) if sn != self.selfname else copy.deepcopy(expr), node)
                return node

        for s_ in cls.body:
            if isinstance(s_, ast.FunctionDef) and s_.args.args and not any(s_ is p[2] for p in props.values()):
                for _ in range(2):
                    P(s_.args.args[0].arg).visit(s_)
        still = {x.attr for x in ast.walk(tree) if isinstance(x, ast.Attribute) and x.attr in props and not any(x in ast.walk(p[2]) for p in props.values())}
        for name, (_, _, fn) in props.items():
            if name not in still and name not in public:
                cls.body = [b for b in cls.body if b is not fn] or [ast.Pass()]
                n += 1
    return n


FOREIGN_PRIVATE_PROPS = {}


def collect_package_private_props(trees):
    """{name: (self name, expression)} of the private read-only one-expression properties that exactly one class of the package
    defines and nothing in the package stores or defines otherwise"""
    defs, stored, fdefs = {}, set(), {}
    for t in trees.values():
        for n in ast.walk(t):
            if isinstance(n, ast.Attribute) and isinstance(n.ctx, (ast.Store, ast.Del)):
                stored.add(n.attr)
            if isinstance(n, ast.FunctionDef):
                fdefs[n.name] = fdefs.get(n.name, 0) + 1
        for cls in [st for st in t.body if isinstance(st, ast.ClassDef)]:
            for s_ in cls.body:
                if isinstance(s_, ast.FunctionDef) and s_.name.startswith("_") and not s_.name.startswith("__") and s_.name not in PROTECTED \
                        and [ast.unparse(d) for d in s_.decorator_list] == ["property"] and len(s_.args.args) == 1:
                    body = strip_doc(s_.body)
                    if len(body) == 1 and isinstance(body[0], ast.Return) and body[0].value is not None and _pure_expr(body[0].value) \
                            and all(isinstance(y, (ast.Name, ast.Attribute, ast.Load, ast.Constant)) for y in ast.walk(body[0].value)):
                        defs.setdefault(s_.name, []).append((s_.args.args[0].arg, body[0].value))
    return {k: v[0] for k, v in defs.items() if len(v) == 1 and k not in stored and fdefs.get(k) == 1}


def inline_private_properties_anywhere(tree):
    """X._name where `_name` is a private read-only single-return property defined by exactly ONE class of the module and stored
    nowhere (so whatever X is, if it has `_name` at all it is that property): its expression with self := X.  X must be a plain
    name / attribute / subscript path (evaluated where the property body uses self, possibly several times)."""
    defs = {}
    for cls in [st for st in tree.body if isinstance(st, ast.ClassDef)]:
        # a predicate property of an enumeration (`format.has_links`) is such a named expression too, whatever its name: members of an
        # Enum cannot be given other attributes of that name
        is_enum = any(ast.unparse(b).split(".")[-1] in ("Enum", "IntEnum", "Flag", "IntFlag") for b in cls.bases)
        for s_ in cls.body:
            if isinstance(s_, ast.FunctionDef) and (s_.name.startswith("_") or is_enum and s_.name not in ("name", "value")) and not s_.name.startswith("__") and s_.name not in PROTECTED \
                    and [ast.unparse(d) for d in s_.decorator_list] == ["property"] and len(s_.args.args) == 1:
                body = strip_doc(s_.body)
                if len(body) == 1 and isinstance(body[0], ast.Return) and body[0].value is not None and _pure_expr(body[0].value):
                    defs.setdefault(s_.name, []).append((cls, s_, s_.args.args[0].arg, body[0].value))
    for cls in [st for st in tree.body if isinstance(st, ast.ClassDef)]:
        for s_ in cls.body:
            if isinstance(s_, ast.FunctionDef) and any(ast.unparse(d).endswith(".setter") for d in s_.decorator_list):
                defs.pop(s_.name, None)
    stored = {n.attr for n in ast.walk(tree) if isinstance(n, ast.Attribute) and isinstance(n.ctx, (ast.Store, ast.Del))}
    other_defs = {}
    for n in ast.walk(tree):
        if isinstance(n, ast.FunctionDef):
            other_defs[n.name] = other_defs.get(n.name, 0) + 1
    props = {k: v[0] for k, v in defs.items() if len(v) == 1 and k not in stored and other_defs.get(k) == 1}
    # the same for a private property that another module of the package defines (exactly one definition package-wide, stored nowhere)
    for k, (sn_, expr_) in FOREIGN_PRIVATE_PROPS.items():
        if k not in props and k not in stored and k not in other_defs:
            props[k] = (None, None, sn_, expr_)
    if not props:
        return 0
    n_done = [0]

    def plain(e):
        return isinstance(e, ast.Name) or (isinstance(e, ast.Attribute) and plain(e.value)) or \
            (isinstance(e, ast.Subscript) and plain(e.value) and isinstance(e.slice, (ast.Name, ast.Constant)) or
             (isinstance(e, ast.Subscript) and plain(e.value) and isinstance(e.slice, ast.UnaryOp) and isinstance(e.slice.operand, ast.Constant)))

    class P(ast.NodeTransformer):
        def visit_Attribute(self, node):
            self.generic_visit(node)
            if isinstance(node.ctx, ast.Load) and node.attr in props and plain(node.value):
                cls, fn, sn, expr = props[node.attr]
                n_done[0] += 1
                return ast.copy_location(_subst_names(expr, {sn: node.value}), node)
            return node

    for st in tree.body:
        if isinstance(st, ast.ClassDef):
            for s_ in st.body:
                if isinstance(s_, ast.FunctionDef) and not any(v[1] is not None and s_ is v[1] for v in props.values()):
                    for _ in range(2):
                        P().visit(s_)
        elif isinstance(st, ast.FunctionDef):
            P().visit(st)
    # drop the properties nothing reads any more
    still = {x.attr for x in ast.walk(tree) if isinstance(x, ast.Attribute) and x.attr in props}
    for name, (cls, fn, _, _) in props.items():
        if name not in still and cls is not None:
            cls.body = [b for b in cls.body if b is not fn] or [ast.Pass()]
    if n_done[0]:
        ast.fix_missing_locations(tree)
    return n_done[0]


def simple_generator(body):
    """[assignments.., Return(<generator expression>)] for a generator body  `a = ..; for x in X: [for/if ..:] yield E`, else None"""
    pre = []
    rest = list(body)
    while rest and isinstance(rest[0], ast.Assign) and len(rest[0].targets) == 1 and isinstance(rest[0].targets[0], ast.Name):
        pre.append(rest.pop(0))
    if rest and all(isinstance(r, ast.Expr) and isinstance(r.value, ast.Yield) and r.value.value is not None and _pure_expr(r.value.value) for r in rest) and len(rest) <= 12:
        # yield a; yield b; yield c   denotes the sequence (a, b, c)
        ret = ast.Return(value=ast.Tuple(elts=[r.value.value for r in rest], ctx=ast.Load()))
        ast.copy_location(ret, rest[0])
        ast.fix_missing_locations(ret)
        return pre + [ret]
    if len(rest) != 1 or not isinstance(rest[0], ast.For):
        return None
    gens = []
    cur = rest[0]
    while True:
        if isinstance(cur, ast.For) and not cur.orelse and len(cur.body) == 1:
            gens.append(ast.comprehension(target=cur.target, iter=cur.iter, ifs=[], is_async=0))
            cur = cur.body[0]
        elif isinstance(cur, ast.If) and not cur.orelse and len(cur.body) == 1 and gens:
            gens[-1].ifs.append(cur.test)
            cur = cur.body[0]
        elif isinstance(cur, ast.Expr) and isinstance(cur.value, ast.Yield) and cur.value.value is not None and gens:
            elt = cur.value.value
            break
        elif isinstance(cur, ast.Expr) and isinstance(cur.value, ast.YieldFrom) and gens:
            # yield from X   is   for _y in X: yield _y
            v = f"_y{next(_counter)}"
            gens.append(ast.comprehension(target=ast.Name(id=v, ctx=ast.Store()), iter=cur.value.value, ifs=[], is_async=0))
            elt = ast.Name(id=v, ctx=ast.Load())
            break
        else:
            return None
    if any(isinstance(n, (ast.Yield, ast.YieldFrom)) for st in pre for n in ast.walk(st)):
        return None
    ret = ast.Return(value=ast.GeneratorExp(elt=elt, generators=gens))
    ast.copy_location(ret, rest[0])
    ast.fix_missing_locations(ret)
    return pre + [ret]


class Helper:
    def __init__(self, node, cls, kind):
        self.node, self.cls, self.kind = node, cls, kind
        a = node.args
        self.params = [x.arg for x in a.posonlyargs + a.args]
        self.kwonly = [x.arg for x in a.kwonlyargs]
        pos = a.posonlyargs + a.args
        self.defaults = {p.arg: d for p, d in zip(pos[len(pos) - len(a.defaults):], a.defaults)}
        for p, d in zip(a.kwonlyargs, a.kw_defaults):
            if d is not None:
                self.defaults[p.arg] = d
        self.vararg = a.vararg is not None or a.kwarg is not None
        self.body = strip_doc(node.body)
        g = simple_generator(self.body)
        if g is not None:
            # a generator function that is one loop nest around a single `yield E` denotes the generator expression (E for ..)
            self.body = g
        self.self_param = self.params[0] if kind in ("method", "classmethod") and self.params else None
        self.value_params = self.params[1:] if self.self_param else self.params

    @property
    def is_expr(self):
        b = self.body
        if not b or not isinstance(b[-1], ast.Return) or b[-1].value is None:
            return False
        if not all(isinstance(s, ast.Assign) and len(s.targets) == 1 and isinstance(s.targets[0], ast.Name) for s in b[:-1]):
            return False
        # folding the locals into the returned expression must neither duplicate nor reorder a computation with effects (a stream
        # read): at most one local holds such a value and it is read exactly once; otherwise the helper is inlined as statements
        impure = [s for s in b[:-1] if not _pure_expr(s.value)]
        if len(impure) > 1:
            return False
        for s in impure:
            nm = s.targets[0].id
            loads = sum(1 for t in b[b.index(s) + 1:] for x in ast.walk(t) if isinstance(x, ast.Name) and x.id == nm and isinstance(x.ctx, ast.Load))
            if loads != 1:
                return False
        return True

    def recursive(self):
        for n in ast.walk(self.node):
            if isinstance(n, ast.Call):
                f = n.func
                if isinstance(f, ast.Name) and f.id == self.node.name:
                    return True
                if isinstance(f, ast.Attribute) and f.attr == self.node.name and isinstance(f.value, ast.Name) and f.value.id in ("self", "cls", self.cls or ""):
                    return True
        return False


def collect_helpers(tree: ast.Module):
    out = {}  # (class name or None, func name) -> Helper

    def kind_of(fn, in_class):
        decs = [ast.unparse(d) for d in fn.decorator_list]
        if not in_class:
            return "function" if not decs else None
        if decs == ["staticmethod"]:
            return "static"
        if decs == ["classmethod"]:
            return "classmethod"
        if not decs:
            return "method"
        return None

    for st in tree.body:
        if isinstance(st, ast.FunctionDef) and st.name.startswith("_") and not st.name.startswith("__") and st.name not in PROTECTED:
            k = kind_of(st, False)
            if k:
                h = Helper(st, None, k)
                if not h.vararg and not h.recursive() and not any(isinstance(n, (ast.Global, ast.Nonlocal)) for n in ast.walk(st)) \
                        and (not any(isinstance(n, (ast.Yield, ast.YieldFrom)) for n in ast.walk(st)) or simple_generator(strip_doc(st.body)) is not None):
                    out[(None, st.name)] = h
        elif isinstance(st, ast.ClassDef):
            for s in st.body:
                if isinstance(s, ast.FunctionDef) and s.name.startswith("_") and not s.name.startswith("__") and s.name not in PROTECTED:
                    k = kind_of(s, True)
                    if k:
                        h = Helper(s, st.name, k)
                        if not h.vararg and not h.recursive() and not any(isinstance(n, (ast.Global, ast.Nonlocal)) for n in ast.walk(s)) \
                                and (not any(isinstance(n, (ast.Yield, ast.YieldFrom)) for n in ast.walk(s)) or simple_generator(strip_doc(s.body)) is not None):
                            out[(st.name, s.name)] = h
    return out


def simple_arg(a):
    if isinstance(a, (ast.Name, ast.Constant)):
        return True
    if isinstance(a, ast.Attribute):
        return simple_arg(a.value)
    if isinstance(a, ast.Subscript):
        return simple_arg(a.value) and simple_arg(a.slice)
    if isinstance(a, (ast.Tuple, ast.List)):
        return all(simple_arg(e) for e in a.elts)
    if isinstance(a, ast.BinOp):
        return simple_arg(a.left) and simple_arg(a.right)
    if isinstance(a, ast.UnaryOp):
        return simple_arg(a.operand)
    return False


class Renamer(ast.NodeTransformer):
    def __init__(self, names, subst):
        self.names, self.subst = names, subst

    def visit_Name(self, node):
        if node.id in self.subst and isinstance(node.ctx, ast.Load):
            return copy.deepcopy(self.subst[node.id])
        if node.id in self.names:
            return ast.copy_location(ast.Name(id=self.names[node.id], ctx=node.ctx), node)
        return node

    def visit_arg(self, node):
        return node

    def visit_ExceptHandler(self, node):
        if node.name and node.name in self.names:
            node.name = self.names[node.name]
        self.generic_visit(node)
        return node


class Inliner:
    def __init__(self, helpers, class_bases):
        self.helpers = helpers
        self.bases = class_bases
        self.inlined_sites = {}
        self.failed_sites = {}
        self.ambiguous = set()   # method names defined more than once in the module or stored as attributes somewhere

    local_instances = {}  # local name -> class name, for `x = Cls(..)` in the function being processed

    def lookup(self, call, cur_cls):
        f = call.func
        if isinstance(f, ast.Name):
            return self.helpers.get((None, f.id)), None
        if isinstance(f, ast.Attribute) and isinstance(f.value, ast.Name):
            recv = f.value.id
            owner = cur_cls if recv in ("self", "cls") else (recv if any(k[0] == recv for k in self.helpers) else None)
            if owner is None and recv in self.local_instances:
                owner = self.local_instances[recv]
                h = self.helpers.get((owner, f.attr))
                if h is not None and h.kind != "method":
                    return None, None
            seen = set()
            stack = [owner] if owner else []
            while stack:
                c = stack.pop()
                if c in seen or c is None:
                    continue
                seen.add(c)
                h = self.helpers.get((c, f.attr))
                if h is not None:
                    return h, f.value
                stack += self.bases.get(c, [])
            # <name>._m(..) on any other plain name: `_m` is a plain private method defined by exactly one class of the module
            # (so if the object has `_m` at all, it is that one)
            if owner is None and f.attr.startswith("_") and not f.attr.startswith("__"):
                cands = [h for (c, nm), h in self.helpers.items() if nm == f.attr]
                if len(cands) == 1 and cands[0].kind == "method" and cands[0].cls is not None and f.attr not in self.ambiguous:
                    return cands[0], f.value
        return None, None

    def bind(self, h: Helper, call, recv, pre):
        """parameter substitution; impure arguments are bound to temporaries appended to `pre`. Returns (subst, rename) or None"""
        tag = next(_counter)
        amap = {}
        params = list(h.value_params)
        if len(call.args) > len(params) or any(isinstance(a, ast.Starred) for a in call.args):
            return None
        for p, a in zip(params, call.args):
            amap[p] = a
        for k in call.keywords:
            if k.arg is None or (k.arg not in params and k.arg not in h.kwonly):
                return None
            amap[k.arg] = k.value
        for p in params + h.kwonly:
            if p not in amap:
                if p in h.defaults:
                    amap[p] = h.defaults[p]
                else:
                    return None
        assigned = {n.id for s in h.body for n in ast.walk(s) if isinstance(n, ast.Name) and isinstance(n.ctx, ast.Store)}
        for s in h.body:
            for n in ast.walk(s):
                if isinstance(n, ast.ExceptHandler) and n.name:
                    assigned.add(n.name)
        rename = {n: f"_inl{tag}_{n}" for n in assigned}
        subst = {}
        if h.self_param and recv is not None:
            subst[h.self_param] = recv
        for p, a in amap.items():
            uses = sum(1 for s in h.body for n in ast.walk(s) if isinstance(n, ast.Name) and n.id == p and isinstance(n.ctx, ast.Load))
            # a single textual use inside a sequence repetition `(p,) * 3` stands for several uses of the ONE value
            repeated = any(isinstance(m, ast.BinOp) and isinstance(m.op, ast.Mult) and any(isinstance(n, ast.Name) and n.id == p for n in ast.walk(m))
                           for s in h.body for m in ast.walk(s))
            if p in assigned or (not simple_arg(a) and (uses != 1 or repeated)):
                tmp = rename.get(p) or f"_inl{tag}_{p}"
                rename[p] = tmp
                pre.append(ast.Assign(targets=[ast.Name(id=tmp, ctx=ast.Store())], value=copy.deepcopy(a), lineno=call.lineno, col_offset=0))
            else:
                subst[p] = a
        return subst, rename

    def body_of(self, h, subst, rename):
        r = Renamer(rename, subst)
        return [r.visit(copy.deepcopy(s)) for s in h.body]

    # -- expression helpers -----------------------------------------------------------------------
    def inline_expr(self, h, call, recv, pre):
        b = self.bind(h, call, recv, pre)
        if b is None:
            return None
        subst, rename = b
        body = self.body_of(h, subst, rename)
        env = {}
        for s in body[:-1]:
            env[s.targets[0].id] = _subst_names(s.value, env)
        return _subst_names(body[-1].value, env)

    # -- statement helpers ------------------------------------------------------------------------
    def convert(self, stmts, ret):
        out = []
        for i, st in enumerate(stmts):
            if isinstance(st, ast.Return):
                out += ret(st.value)
                return out
            if isinstance(st, ast.If) and (contains_return(st.body) or contains_return(st.orelse)):
                rest = stmts[i + 1:]
                b = self.convert(st.body + ([] if always_exits(st.body) else copy.deepcopy(rest)), ret)
                o = self.convert(st.orelse + ([] if always_exits(st.orelse) else copy.deepcopy(rest)), ret)
                if b is None or o is None:
                    return None
                new = ast.If(test=st.test, body=b or [ast.Pass()], orelse=o)
                out.append(ast.copy_location(new, st))
                return out
            if isinstance(st, (ast.For, ast.While)) and contains_return([st]):
                return None
            if isinstance(st, ast.Try) and contains_return([st]):
                if stmts[i + 1:]:
                    return None
                body = self.convert(st.body, ret)
                handlers = []
                for hd in st.handlers:
                    hb = self.convert(hd.body, ret)
                    if hb is None:
                        return None
                    handlers.append(ast.copy_location(ast.ExceptHandler(type=hd.type, name=hd.name, body=hb or [ast.Pass()]), hd))
                orelse = self.convert(st.orelse, ret) if st.orelse else []
                if body is None or orelse is None or contains_return(st.finalbody):
                    return None
                out.append(ast.copy_location(ast.Try(body=body or [ast.Pass()], handlers=handlers, orelse=orelse, finalbody=st.finalbody), st))
                return out
            if isinstance(st, ast.With) and contains_return([st]):
                if stmts[i + 1:]:
                    return None
                body = self.convert(st.body, ret)
                if body is None:
                    return None
                out.append(ast.copy_location(ast.With(items=st.items, body=body or [ast.Pass()]), st))
                return out
            out.append(st)
        return out

    def inline_stmt(self, h, call, recv, form, target, pre):
        b = self.bind(h, call, recv, pre)
        if b is None:
            return None
        subst, rename = b
        body = self.body_of(h, subst, rename)
        if form == "return":
            return body if always_exits(body) else body + [ast.Return(value=None)]
        if form == "assign" and isinstance(target, ast.Name):
            # `t = helper(..)` where the helper builds a local and returns it: the local IS t
            rets = [n for s_ in h.body for n in ast.walk(s_) if isinstance(n, ast.Return)]
            rn = {n.value.id for n in rets if isinstance(n.value, ast.Name)}
            arg_names = {x.id for a in list(call.args) + [k.value for k in call.keywords] for x in ast.walk(a) if isinstance(x, ast.Name)}
            if rets and len(rn) == 1 and all(isinstance(n.value, ast.Name) for n in rets) and next(iter(rn)) in rename \
                    and next(iter(rn)) not in h.params and target.id not in arg_names:
                r = next(iter(rn))
                rename = dict(rename)
                rename[r] = target.id
                body = self.body_of(h, subst, rename)
                conv = self.convert(body, lambda v: [])
                if conv is not None:
                    return conv or [ast.Pass()]
                body = self.body_of(h, subst, b[1])
                rename = b[1]
        if form == "expr":
            ret = lambda v: ([ast.Expr(value=v)] if v is not None and any(isinstance(n, ast.Call) for n in ast.walk(v)) else [])
        else:
            ret = lambda v: [ast.Assign(targets=[copy.deepcopy(target)], value=v if v is not None else ast.Constant(value=None), lineno=call.lineno, col_offset=0)]
        conv = self.convert(body, ret)
        if conv is None:
            return None
        if form == "assign" and not always_assigns(conv):
            conv = [ast.Assign(targets=[copy.deepcopy(target)], value=ast.Constant(value=None), lineno=call.lineno, col_offset=0)] + conv
        return conv or [ast.Pass()]

    # -- driver ------------------------------------------------------------------------------------
    def process_function(self, fn, cur_cls):
        changed = False
        # locals bound once to a freshly constructed instance of a class of this module
        self.local_instances = {}
        counts = {}
        for n in ast.walk(fn):
            if isinstance(n, ast.Name) and isinstance(n.ctx, ast.Store):
                counts[n.id] = counts.get(n.id, 0) + 1
        for n in ast.walk(fn):
            if isinstance(n, ast.Assign) and len(n.targets) == 1 and isinstance(n.targets[0], ast.Name) and counts.get(n.targets[0].id) == 1 \
                    and isinstance(n.value, ast.Call) and isinstance(n.value.func, ast.Name) and any(k[0] == n.value.func.id for k in self.helpers):
                self.local_instances[n.targets[0].id] = n.value.func.id

        def do_block(stmts):
            nonlocal changed
            out = []
            for st in stmts:
                # recurse into compound statements first
                for fld in ("body", "orelse", "finalbody"):
                    sub = getattr(st, fld, None)
                    if isinstance(sub, list) and sub and isinstance(sub[0], ast.stmt):
                        setattr(st, fld, do_block(sub))
                if isinstance(st, ast.Try):
                    for hd in st.handlers:
                        hd.body = do_block(hd.body)
                if isinstance(st, ast.FunctionDef) and cur_cls is None and not any(isinstance(x, (ast.Yield, ast.YieldFrom)) for x in ast.walk(st)):
                    # the inner function of a decorator: its statements call the module's helpers like any other
                    st.body = do_block(st.body)
                if isinstance(st, (ast.FunctionDef, ast.ClassDef)):
                    out.append(st)
                    continue
                # return H(..) if c else K(..)   ->   if c: return H(..) else: return K(..)     when an arm calls a statement helper of the module
                if isinstance(st, ast.Return) and isinstance(st.value, ast.IfExp):
                    arms = [st.value.body, st.value.orelse]
                    hs = [self.lookup(a, cur_cls)[0] if isinstance(a, ast.Call) else None for a in arms]
                    if any(h_ is not None and not h_.is_expr for h_ in hs):
                        split = ast.copy_location(ast.If(test=st.value.test, body=do_block([ast.copy_location(ast.Return(value=arms[0]), st)]),
                                                         orelse=do_block([ast.copy_location(ast.Return(value=arms[1]), st)])), st)
                        out.append(split)
                        changed = True
                        continue
                pre = []
                # whole-statement forms
                call = None
                form = None
                target = None
                if isinstance(st, ast.Expr) and isinstance(st.value, ast.Call):
                    call, form = st.value, "expr"
                elif isinstance(st, ast.Assign) and len(st.targets) == 1 and isinstance(st.value, ast.Call):
                    call, form, target = st.value, "assign", st.targets[0]
                elif isinstance(st, ast.Return) and isinstance(st.value, ast.Call):
                    call, form = st.value, "return"
                if call is not None:
                    h, recv = self.lookup(call, cur_cls)
                    if h is not None and h.node is not fn and not h.is_expr:
                        key = (h.cls, h.node.name)
                        new = self.inline_stmt(h, call, recv, form, target, pre)
                        if new is not None:
                            for s in pre + new:
                                ast.copy_location(s, st) if not hasattr(s, "lineno") else None
                            out += pre + new
                            self.inlined_sites[key] = self.inlined_sites.get(key, 0) + 1
                            changed = True
                            continue
                        self.failed_sites[key] = self.failed_sites.get(key, 0) + 1
                # a statement helper called inside a simple statement whose other calls all enclose it (nothing is evaluated
                # before it that could observe the difference): bind its result first, then inline that binding
                root_field = "value" if isinstance(st, (ast.Expr, ast.Assign, ast.Return, ast.AugAssign)) else ("iter" if isinstance(st, ast.For) else ("test" if isinstance(st, ast.If) else None))
                if root_field is not None and getattr(st, root_field) is not None:
                    root = getattr(st, root_field)
                    from .normalize2 import eval_order
                    # (not inside a comprehension / generator / lambda of that statement: there the call runs once per element, or later)
                    nested_scope = {id(x) for sc in ast.walk(root) if isinstance(sc, (ast.ListComp, ast.SetComp, ast.DictComp, ast.GeneratorExp, ast.Lambda))
                                    for part in ([sc.elt] if hasattr(sc, "elt") else [sc.key, sc.value] if isinstance(sc, ast.DictComp) else [sc.body])
                                    + [i_ for g_ in getattr(sc, "generators", []) for i_ in g_.ifs] + [g_.iter for g_ in getattr(sc, "generators", [])[1:]]
                                    for x in ast.walk(part)}
                    hc = [n for n in eval_order(root) if isinstance(n, ast.Call) and id(n) not in nested_scope and self.lookup(n, cur_cls)[0] is not None
                          and not self.lookup(n, cur_cls)[0].is_expr and self.lookup(n, cur_cls)[0].node is not fn]
                    # several helper calls in one statement: bind them one by one, in evaluation order, when every other call
                    # encloses one of them (so nothing else is evaluated in between that could tell the difference)
                    while len(hc) > 1 and hc[0] is not root and not any(any(x is hc[0] for x in ast.walk(a)) for a in hc[1:]):
                        others = [n for n in ast.walk(root) if isinstance(n, ast.Call) and all(n is not c_ for c_ in hc)]
                        if not all(any(any(x is c_ for x in ast.walk(o)) for c_ in hc) for o in others):
                            break
                        first = hc[0]
                        h, recv = self.lookup(first, cur_cls)
                        tmp = ast.Name(id=f"_inl{next(_counter)}_ret", ctx=ast.Store())
                        pre2 = []
                        new = self.inline_stmt(h, first, recv, "assign", tmp, pre2)
                        if new is None:
                            break

                        class Rep0(ast.NodeTransformer):
                            def visit_Call(self, n):
                                if n is first:
                                    return ast.copy_location(ast.Name(id=tmp.id, ctx=ast.Load()), n)
                                self.generic_visit(n)
                                return n
                        setattr(st, root_field, Rep0().visit(getattr(st, root_field)))
                        root = getattr(st, root_field)
                        out += pre2 + new
                        key = (h.cls, h.node.name)
                        self.inlined_sites[key] = self.inlined_sites.get(key, 0) + 1
                        changed = True
                        hc = hc[1:]
                    # return CTX[helper(..)] with CTX free of other calls: the helper's statements, each `return X` of it becoming `return CTX[X]`
                    # (CTX only reads names / attributes / items; a helper that stores to attributes is left to the binding form below)
                    if len(hc) == 1 and hc[0] is not root and isinstance(st, ast.Return) and not any(isinstance(n, (ast.Call, ast.NamedExpr, ast.Lambda, ast.IfExp, ast.BoolOp)) and n is not hc[0] for n in ast.walk(root)) \
                            and not any(isinstance(n, ast.Attribute) and isinstance(n.ctx, ast.Store) for n in ast.walk(self.lookup(hc[0], cur_cls)[0].node)) \
                            and not any(isinstance(n, (ast.Yield, ast.YieldFrom)) for n in ast.walk(self.lookup(hc[0], cur_cls)[0].node)):
                        target_call = hc[0]
                        h, recv = self.lookup(target_call, cur_cls)
                        pre2 = []
                        new = self.inline_stmt(h, target_call, recv, "return", None, pre2)
                        if new is not None and not any(isinstance(r_, ast.Return) and r_.value is None for s_ in new for r_ in ast.walk(s_)):
                            for s_ in new:
                                for r_ in ast.walk(s_):
                                    if isinstance(r_, ast.Return):
                                        val = r_.value

                                        class Wrap(ast.NodeTransformer):
                                            def visit_Call(self, n):
                                                if n is target_call:
                                                    return val
                                                self.generic_visit(n)
                                                return n
                                        # one fresh copy of the context per return site (the helper call node is shared: find it by position)
                                        ctx_copy = copy.deepcopy(root)
                                        orig_nodes = list(ast.walk(root))
                                        copy_nodes = list(ast.walk(ctx_copy))
                                        tc_copy = copy_nodes[[id(x) for x in orig_nodes].index(id(target_call))]

                                        class Wrap2(ast.NodeTransformer):
                                            def visit_Call(self, n):
                                                if n is tc_copy:
                                                    return val
                                                self.generic_visit(n)
                                                return n
                                        r_.value = Wrap2().visit(ctx_copy)
                            for s_ in pre2 + new:
                                ast.copy_location(s_, st) if not hasattr(s_, "lineno") else None
                            out += pre2 + new
                            key = (h.cls, h.node.name)
                            self.inlined_sites[key] = self.inlined_sites.get(key, 0) + 1
                            changed = True
                            continue
                    if len(hc) == 1 and (hc[0] is not root or root_field in ("iter", "test")):
                        target_call = hc[0]
                        others = [n for n in ast.walk(root) if isinstance(n, ast.Call) and n is not target_call]
                        encloses = lambda outer: any(x is target_call for x in ast.walk(outer))
                        if all(encloses(o) for o in others):
                            h, recv = self.lookup(target_call, cur_cls)
                            tmp = ast.Name(id=f"_inl{next(_counter)}_ret", ctx=ast.Store())
                            pre2 = []
                            new = self.inline_stmt(h, target_call, recv, "assign", tmp, pre2)
                            key = (h.cls, h.node.name)
                            if new is not None:
                                class Rep(ast.NodeTransformer):
                                    def visit_Call(self, n):
                                        if n is target_call:
                                            return ast.copy_location(ast.Name(id=tmp.id, ctx=ast.Load()), n)
                                        self.generic_visit(n)
                                        return n
                                setattr(st, root_field, Rep().visit(getattr(st, root_field)))
                                out += pre2 + new
                                self.inlined_sites[key] = self.inlined_sites.get(key, 0) + 1
                                changed = True
                            else:
                                self.failed_sites[key] = self.failed_sites.get(key, 0) + 1
                # expression helpers anywhere in the statement's own expressions
                inl = self

                class X(ast.NodeTransformer):
                    def visit_Call(self, node):
                        self.generic_visit(node)
                        h, recv = inl.lookup(node, cur_cls)
                        if h is not None and h.node is not fn and h.is_expr:
                            e = inl.inline_expr(h, node, recv, pre)
                            key = (h.cls, h.node.name)
                            if e is not None:
                                inl.inlined_sites[key] = inl.inlined_sites.get(key, 0) + 1
                                nonlocal_changed[0] = True
                                return ast.copy_location(e, node)
                            inl.failed_sites[key] = inl.failed_sites.get(key, 0) + 1
                        return node

                    def visit_FunctionDef(self, node):
                        return node

                    def visit_Lambda(self, node):
                        return node

                nonlocal_changed = [False]
                # only the statement's own expressions (not nested statement lists, already processed)
                for fld, val in list(ast.iter_fields(st)):
                    if fld in ("body", "orelse", "finalbody", "handlers"):
                        continue
                    if isinstance(val, ast.AST):
                        setattr(st, fld, X().visit(val))
                    elif isinstance(val, list):
                        setattr(st, fld, [X().visit(v) if isinstance(v, ast.AST) else v for v in val])
                if nonlocal_changed[0]:
                    changed = True
                out += pre + [st]
            return out

        fn.body = do_block(fn.body)
        return changed


def always_assigns(stmts):
    if not stmts:
        return False
    last = stmts[-1]
    if isinstance(last, ast.Assign):
        return True
    if isinstance(last, ast.Raise):
        return True
    if isinstance(last, ast.If):
        return bool(last.orelse) and always_assigns(last.body) and always_assigns(last.orelse)
    if isinstance(last, ast.Try):
        return always_assigns(last.body) and all(always_assigns(h.body) for h in last.handlers)
    return False


def _subst_names(node, env):
    class S(ast.NodeTransformer):
        def visit_Name(self, n):
            if n.id in env and isinstance(n.ctx, ast.Load):
                return copy.deepcopy(env[n.id])
            return n

    return S().visit(copy.deepcopy(node))


# ------------------------------------------------------------------------------------------- N3 / N4 loops
class LoopNorm(ast.NodeTransformer):
    def visit_For(self, node):
        self.generic_visit(node)
        node.body = self._continue_elim(node.body)
        # for _ in range(K), K a literal <= 4, loop variable unused: the body K times
        it = node.iter
        if isinstance(it, ast.Call) and isinstance(it.func, ast.Name) and it.func.id == "range" and len(it.args) == 1 and not it.keywords \
                and isinstance(it.args[0], ast.Constant) and isinstance(it.args[0].value, int) and 0 < it.args[0].value <= 4 and not node.orelse \
                and isinstance(node.target, ast.Name) \
                and not any(isinstance(n, (ast.Break, ast.Continue)) for s in node.body for n in ast.walk(s)) \
                and not any(isinstance(n, ast.Name) and n.id == node.target.id for s in node.body for n in ast.walk(s)) \
                and not any(isinstance(n, ast.Name) and isinstance(n.ctx, ast.Store) for s in node.body for n in ast.walk(s)):
            return [copy.deepcopy(s) for _ in range(it.args[0].value) for s in node.body]
        # unroll loops over literal sequences (also zip(<literal>, <literal>) and tuple targets over literal tuples)
        seq = node.iter
        if isinstance(seq, ast.Call) and isinstance(seq.func, ast.Name) and seq.func.id == "zip" and not seq.keywords and len(seq.args) >= 2 \
                and all(isinstance(a, (ast.Tuple, ast.List)) for a in seq.args) and len({len(a.elts) for a in seq.args}) == 1:
            seq = ast.Tuple(elts=[ast.Tuple(elts=[a.elts[k] for a in seq.args], ctx=ast.Load()) for k in range(len(seq.args[0].elts))], ctx=ast.Load())
        # .. a loop whose only jump is a final `if C: break`:  B1; if not C1: (B2; if not C2: (B3 ..))
        tail_break = None
        if isinstance(seq, (ast.Tuple, ast.List)) and 0 < len(seq.elts) <= 12 and not node.orelse and node.body and isinstance(node.body[-1], ast.If) \
                and not node.body[-1].orelse and len(node.body[-1].body) == 1 and isinstance(node.body[-1].body[0], ast.Break) \
                and not any(isinstance(n, (ast.Break, ast.Continue)) for s in node.body[:-1] for n in ast.walk(s)) and isinstance(node.target, ast.Name) \
                and not any(isinstance(n, ast.Name) and n.id == node.target.id and isinstance(n.ctx, ast.Store) for s in node.body for n in ast.walk(s)):
            tail_break = node.body[-1].test
            pre = node.body[:-1]
            out = None
            for e in reversed(seq.elts):
                env = {node.target.id: e}
                step = [_subst_names(s, env) for s in pre]
                if out is None:
                    out = step           # the last element: its break changes nothing
                else:
                    cond = ast.UnaryOp(op=ast.Not(), operand=_subst_names(tail_break, env))
                    out = step + [ast.copy_location(ast.If(test=cond, body=out, orelse=[]), node)]
            ast.fix_missing_locations(ast.Module(body=out, type_ignores=[]))
            return out
        if isinstance(seq, (ast.Tuple, ast.List)) and 0 < len(seq.elts) <= 12 and not node.orelse \
                and not any(isinstance(n, (ast.Break, ast.Continue)) for s in node.body for n in ast.walk(s)):
            tnames = [node.target.id] if isinstance(node.target, ast.Name) else \
                ([t.id for t in node.target.elts] if isinstance(node.target, (ast.Tuple, ast.List)) and all(isinstance(t, ast.Name) for t in node.target.elts) else None)
            if tnames is not None and not any(isinstance(n, ast.Name) and n.id in tnames and isinstance(n.ctx, ast.Store) for s in node.body for n in ast.walk(s)):
                envs = []
                for e in seq.elts:
                    if isinstance(node.target, ast.Name):
                        envs.append({node.target.id: e})
                    elif isinstance(e, (ast.Tuple, ast.List)) and len(e.elts) == len(tnames):
                        envs.append(dict(zip(tnames, e.elts)))
                    else:
                        envs = None
                        break
                if envs is not None:
                    out = []
                    for env in envs:
                        for s in node.body:
                            out.append(_subst_names(s, env))
                    return out
        return node

    def visit_While(self, node):
        self.generic_visit(node)
        node.body = self._continue_elim(node.body)
        return node

    @staticmethod
    def _continue_elim(body):
        for i, st in enumerate(body):
            if isinstance(st, ast.If) and not st.orelse and len(st.body) == 1 and isinstance(st.body[0], ast.Continue):
                rest = body[i + 1:]
                if not rest:
                    return body[:i]
                neg = _negate(st.test)
                new = ast.copy_location(ast.If(test=neg, body=LoopNorm._continue_elim(rest), orelse=[]), st)
                return body[:i] + [new]
        return body


def _negate(t):
    flip = {ast.Eq: ast.NotEq, ast.NotEq: ast.Eq, ast.Lt: ast.GtE, ast.GtE: ast.Lt, ast.Gt: ast.LtE, ast.LtE: ast.Gt,
            ast.Is: ast.IsNot, ast.IsNot: ast.Is, ast.In: ast.NotIn, ast.NotIn: ast.In}
    if isinstance(t, ast.UnaryOp) and isinstance(t.op, ast.Not):
        return t.operand
    if isinstance(t, ast.Compare) and len(t.ops) == 1 and type(t.ops[0]) in flip:
        return ast.Compare(left=t.left, ops=[flip[type(t.ops[0])]()], comparators=t.comparators)
    return ast.UnaryOp(op=ast.Not(), operand=t)


# ------------------------------------------------------------------------------------------- helpers shared across modules
def _module_bindings(tree):
    """name -> ('import', module, original name) | ('local', None, None) for every module-level binding"""
    out = {}
    for st in tree.body:
        if isinstance(st, ast.ImportFrom):
            for a in st.names:
                out[a.asname or a.name] = ("import", st.module or "", a.name)
        elif isinstance(st, ast.Import):
            for a in st.names:
                out[a.asname or a.name.split(".")[0]] = ("import", a.name, None)
        elif isinstance(st, (ast.FunctionDef, ast.ClassDef)):
            out[st.name] = ("local", None, None)
        elif isinstance(st, (ast.Assign, ast.AnnAssign)):
            for t in (st.targets if isinstance(st, ast.Assign) else [st.target]):
                for x in ast.walk(t):
                    if isinstance(x, ast.Name):
                        out[x.id] = ("local", None, None)
    return out


def _same_definition(tree, src, name):
    """both modules bind `name` at module level, once, to the textually same expression (a duplicated codec definition)"""
    def val(t):
        vs = [st.value for st in t.body if isinstance(st, ast.Assign) and len(st.targets) == 1 and isinstance(st.targets[0], ast.Name) and st.targets[0].id == name]
        return ast.unparse(vs[0]) if len(vs) == 1 else None
    a, b = val(tree), val(src)
    return a is not None and a == b


def import_private_helpers(tree, trees, pkg):
    """`from pkg.mod import _helper`: a private module-level function of another module of the package is copied into the
    importing module (with the imports its body needs), so that it is inlined like a local helper. Skipped when a name its
    body uses is bound to something else here."""
    copied = []
    here = _module_bindings(tree)
    for st in list(tree.body):
        if not isinstance(st, ast.ImportFrom) or not st.module:
            continue
        parts = st.module.split(".")
        if parts[0] != pkg or len(parts) != 2 or parts[1] not in trees:
            continue
        src = trees[parts[1]]
        src_b = _module_bindings(src)
        for a in list(st.names):
            if a.name.startswith("__") or a.asname:
                continue
            fn = next((d for d in src.body if isinstance(d, ast.FunctionDef) and d.name == a.name and not d.decorator_list), None)
            if fn is None:
                # a private module-level constant of another module (`_MISSING_VALUE = np.nan`): the value is copied here when it is
                # a literal / numpy constant and the names it uses mean the same in both modules
                defs_ = [d for d in src.body if isinstance(d, ast.Assign) and len(d.targets) == 1 and isinstance(d.targets[0], ast.Name) and d.targets[0].id == a.name]
                rebinds = [x for x in ast.walk(src) if isinstance(x, ast.Name) and x.id == a.name and isinstance(x.ctx, ast.Store)]
                if a.name.startswith("_") and len(defs_) == 1 and len(rebinds) == 1 and a.name not in {k for k in here if here[k][0] != "import"}:
                    v_ = defs_[0].value
                    literalish = all(isinstance(y, (ast.Constant, ast.Attribute, ast.Name, ast.Load, ast.UnaryOp, ast.USub, ast.UAdd, ast.BinOp, ast.Add, ast.Sub, ast.Mult, ast.Tuple)) for y in ast.walk(v_)) \
                        and all(y.id in ("np", "numpy", "math") for y in ast.walk(v_) if isinstance(y, ast.Name))
                    same_names = all(here.get(y.id) == src_b.get(y.id) for y in ast.walk(v_) if isinstance(y, ast.Name))
                    if literalish and same_names and not any(isinstance(x, ast.Name) and x.id == a.name and isinstance(x.ctx, ast.Store) for x in ast.walk(tree)):
                        st.names = [x for x in st.names if x is not a]
                        idx_ = max([i for i, b in enumerate(tree.body) if isinstance(b, (ast.Import, ast.ImportFrom))] + [-1]) + 1
                        tree.body.insert(idx_, copy.deepcopy(defs_[0]))
                        here[a.name] = ("local", None, None)
                        copied.append(f"{parts[1]}.{a.name}")
                continue
            public = not a.name.startswith("_")
            if public:
                # a public function of another module is brought over only when it is a one-expression function (a named expression,
                # e.g. "first item with this label") and is used here through direct calls only; it gets a private local name
                fbody = [b for b in fn.body if not (isinstance(b, ast.Expr) and isinstance(b.value, ast.Constant))]
                one_expr = len(fbody) == 1 and isinstance(fbody[0], ast.Return) and fbody[0].value is not None
                # .. or a short straight-line computation (local assignments, an `if` on a parameter, one final return): a named
                # derivation such as "the runs of valid frames of these samples", shared by sibling classes
                straight = 1 < len(fbody) <= 8 and isinstance(fbody[-1], ast.Return) and fbody[-1].value is not None \
                    and all(isinstance(b, (ast.Assign, ast.If)) for b in fbody[:-1]) \
                    and not any(isinstance(y, (ast.For, ast.While, ast.With, ast.Try, ast.Raise, ast.Yield, ast.YieldFrom, ast.Lambda, ast.FunctionDef, ast.Global, ast.Nonlocal)) for b in fbody for y in ast.walk(b)) \
                    and sum(isinstance(y, ast.Return) for b in fbody for y in ast.walk(b)) == 1
                if not (one_expr or straight) or fn.args.vararg or fn.args.kwarg:
                    continue
                loads_ = [x for x in ast.walk(tree) if isinstance(x, ast.Name) and x.id == a.name and isinstance(x.ctx, ast.Load)]
                calls_ = [x for x in ast.walk(tree) if isinstance(x, ast.Call) and isinstance(x.func, ast.Name) and x.func.id == a.name]
                if not loads_ or len(loads_) != len(calls_) or any(isinstance(x, ast.Name) and x.id == a.name and isinstance(x.ctx, ast.Store) for x in ast.walk(tree)):
                    continue
            bound = {x.arg for x in fn.args.posonlyargs + fn.args.args + fn.args.kwonlyargs} | {x.id for x in ast.walk(fn) if isinstance(x, ast.Name) and isinstance(x.ctx, ast.Store)}
            free = {x.id for x in ast.walk(fn) if isinstance(x, ast.Name) and isinstance(x.ctx, ast.Load)} - bound
            need, okk = [], True
            for nm in sorted(free):
                if nm not in src_b:
                    continue  # builtin
                kind, mod, orig = src_b[nm]
                want = ("import", mod, orig) if kind == "import" else ("import", st.module, nm)
                if nm in here:
                    if here[nm] != want and not (here[nm][0] == "import" and here[nm][2] == want[2] and (here[nm][1] or "").split(".")[-1] == (want[1] or "").split(".")[-1]) \
                            and not _same_definition(tree, src, nm):
                        okk = False
                        break
                else:
                    need.append((nm, want))
            if not okk:
                continue
            for nm, (_, mod, orig) in need:
                if orig is None:
                    tree.body.insert(0, ast.Import(names=[ast.alias(name=mod, asname=None if mod.split(".")[0] == nm else nm)]))
                else:
                    tree.body.insert(0, ast.ImportFrom(module=mod, names=[ast.alias(name=orig, asname=None if orig == nm else nm)], level=0))
                here[nm] = ("import", mod, orig)
            st.names = [x for x in st.names if x is not a]
            fcopy = copy.deepcopy(fn)
            if public:
                fcopy.name = f"_imp_{a.name}"
                for x in ast.walk(tree):
                    if isinstance(x, ast.Name) and x.id == a.name and isinstance(x.ctx, ast.Load):
                        x.id = fcopy.name
            tree.body.append(fcopy)
            here[fcopy.name] = ("local", None, None)
            copied.append(f"{parts[1]}.{a.name}")
        if not st.names:
            tree.body = [x for x in tree.body if x is not st]
    if copied:
        ast.fix_missing_locations(tree)
    return copied


def _bring_names(fn, src_b, src_modname, tree, here):
    """make the free names of `fn` (defined in another module whose bindings are src_b) available in `tree`; False if one of them
    is bound to something else here"""
    bound = {x.arg for x in fn.args.posonlyargs + fn.args.args + fn.args.kwonlyargs} | {x.id for x in ast.walk(fn) if isinstance(x, ast.Name) and isinstance(x.ctx, ast.Store)}
    free = {x.id for x in ast.walk(fn) if isinstance(x, ast.Name) and isinstance(x.ctx, ast.Load)} - bound
    need = []
    for nm in sorted(free):
        if nm not in src_b:
            continue  # builtin
        kind, mod, orig = src_b[nm]
        want = ("import", mod, orig) if kind == "import" else ("import", src_modname, nm)
        if nm in here:
            if here[nm] != want and not (here[nm][0] == "import" and here[nm][2] == want[2] and (here[nm][1] or "").split(".")[-1] == (want[1] or "").split(".")[-1]):
                return False
        else:
            need.append((nm, want))
    for nm, (_, mod, orig) in need:
        if orig is None:
            tree.body.insert(0, ast.Import(names=[ast.alias(name=mod, asname=None if mod.split(".")[0] == nm else nm)]))
        else:
            tree.body.insert(0, ast.ImportFrom(module=mod, names=[ast.alias(name=orig, asname=None if orig == nm else nm)], level=0))
        here[nm] = ("import", mod, orig)
    return True


def copy_inherited_private_methods(tree, trees, pkg):
    """class C(B) with B imported from another module of the package, and a method of C calls `self._m(..)` / `cls._m(..)` / `C._m(..)`
    / `B._m(..)` where `_m` is a plain private method (or staticmethod) of B that C does not define: the definition is copied into
    C's body - which is what inheritance means - so that the helper inliner sees it like C's own private method.  Skipped when a
    name the method uses is bound to something else in this module, or when any subclass in the package overrides `_m`."""
    here = _module_bindings(tree)
    done = []
    imported = {}
    for st in tree.body:
        if isinstance(st, ast.ImportFrom) and st.module:
            parts = st.module.split(".")
            if parts[0] == pkg and len(parts) == 2 and parts[1] in trees:
                for a in st.names:
                    c = next((d for d in trees[parts[1]].body if isinstance(d, ast.ClassDef) and d.name == a.name), None)
                    if c is not None:
                        imported[a.asname or a.name] = (c, trees[parts[1]], st.module)
    if not imported:
        return done
    overridden = {m.name for t in trees.values() for c in t.body if isinstance(c, ast.ClassDef) and c.bases for m in c.body if isinstance(m, ast.FunctionDef)}
    for cls in [c for c in tree.body if isinstance(c, ast.ClassDef)]:
        bases = [ast.unparse(b) for b in cls.bases]
        own = {m.name for m in cls.body if isinstance(m, ast.FunctionDef)}
        for call in [n for n in ast.walk(cls) if isinstance(n, ast.Call)]:
            f = call.func
            if not (isinstance(f, ast.Attribute) and isinstance(f.value, ast.Name) and f.attr.startswith("_") and not f.attr.startswith("__") and f.attr not in own):
                continue
            if f.value.id not in ("self", "cls", cls.name) and f.value.id not in bases:
                continue
            for b in bases:
                if b not in imported:
                    continue
                bdef, src, src_mod = imported[b]
                meth = next((m for m in bdef.body if isinstance(m, ast.FunctionDef) and m.name == f.attr), None)
                if meth is None or f.attr in overridden - {f.attr if sum(1 for t in trees.values() for c in t.body if isinstance(c, ast.ClassDef) for m in c.body if isinstance(m, ast.FunctionDef) and m.name == f.attr) == 1 else None}:
                    continue
                if any(ast.unparse(d) not in ("staticmethod",) for d in meth.decorator_list):
                    continue
                fn = copy.deepcopy(meth)
                if not _bring_names(fn, _module_bindings(src), src_mod, tree, here):
                    continue
                cls.body.append(fn)
                own.add(f.attr)
                if f.value.id in bases:
                    f.value = ast.copy_location(ast.Name(id=cls.name, ctx=ast.Load()), f.value)
                done.append(f"{b}.{f.attr} -> {cls.name}")
                break
    if done:
        ast.fix_missing_locations(tree)
    return done


def import_private_methods(tree, trees, pkg, modname, fold_only=False):
    """`X._helper(a, b)` where X is a module-level object built once by `C(...)` and C (defined here or imported from a module of
    the package) has the plain private method `_helper`: the method is copied as the module function `_C_helper(self, ..)` and the
    call becomes `_C_helper(X, a, b)`, which the helper inliner then treats like any private function."""
    here = _module_bindings(tree)
    stores = {}
    for n in ast.walk(tree):
        if isinstance(n, ast.Name) and isinstance(n.ctx, ast.Store):
            stores[n.id] = stores.get(n.id, 0) + 1
    classes = {}   # local class name -> (ClassDef, module tree, module name)
    for st in tree.body:
        if isinstance(st, ast.ClassDef):
            classes[st.name] = (st, tree, f"{pkg}.{modname}")
        elif isinstance(st, ast.ImportFrom) and st.module:
            parts = st.module.split(".")
            if parts[0] == pkg and len(parts) == 2 and parts[1] in trees:
                for a in st.names:
                    c = next((d for d in trees[parts[1]].body if isinstance(d, ast.ClassDef) and d.name == a.name), None)
                    if c is not None:
                        classes[a.asname or a.name] = (c, trees[parts[1]], st.module)
    inst = {}
    for st in tree.body:
        if isinstance(st, ast.Assign) and isinstance(st.value, ast.Call) and isinstance(st.value.func, ast.Name) and st.value.func.id in classes:
            for t in st.targets:
                if isinstance(t, ast.Name) and stores.get(t.id) == len([1 for tt in st.targets if isinstance(tt, ast.Name) and tt.id == t.id]):
                    inst[t.id] = st.value.func.id
        # imported instances:  from pkg.mod import VEC3F   with VEC3F = C(...) there
        if isinstance(st, ast.ImportFrom) and st.module:
            parts = st.module.split(".")
            if parts[0] == pkg and len(parts) == 2 and parts[1] in trees:
                src = trees[parts[1]]
                for a in st.names:
                    d = next((x for x in src.body if isinstance(x, ast.Assign) and any(isinstance(t, ast.Name) and t.id == a.name for t in x.targets)
                              and isinstance(x.value, ast.Call) and isinstance(x.value.func, ast.Name)), None)
                    if d is not None and stores.get(a.asname or a.name, 0) == 0:
                        cname = d.value.func.id
                        c = next((k for k in src.body if isinstance(k, ast.ClassDef) and k.name == cname), None)
                        if c is not None:
                            key = f"{cname}@{parts[1]}"
                            classes[key] = (c, src, st.module)
                            inst[a.asname or a.name] = key
    if not inst:
        return []
    copied = {}
    done = []
    for call in ([] if fold_only else [n for n in ast.walk(tree) if isinstance(n, ast.Call)]):
        f = call.func
        if not (isinstance(f, ast.Attribute) and isinstance(f.value, ast.Name) and f.value.id in inst and not f.attr.startswith("__")):
            continue
        cdef, src, src_mod = classes[inst[f.value.id]]
        composite = cdef.name == "TdfType" and f.attr not in ("bread", "bwrite", "skip", "bpad", "read", "write", "pad", "nBytes", "itemsize")
        if not f.attr.startswith("_") and not composite and (cdef.name in ("TdfType", "BTSString", "BTSDate", "CameraViewPort", "Tdf", "TdfEntry")
                                           or sum(isinstance(m_, ast.FunctionDef) for m_ in cdef.body) > 6 or cdef.bases and any(ast.unparse(b_) not in ("object",) for b_ in cdef.bases)):
            # public methods are brought over only for small helper classes (a field descriptor, a named pair of operations) - never for
            # the codec primitives, whose calls are the atoms of the layout interpreter
            continue
        meth = next((m for m in cdef.body if isinstance(m, ast.FunctionDef) and m.name == f.attr and not m.decorator_list), None)
        if meth is None or not meth.args.args:
            continue
        cname = cdef.name
        new_name = f"_{cname.lstrip('_')}{f.attr if f.attr.startswith('_') else '_' + f.attr}"
        if new_name not in copied:
            if new_name in here:
                continue
            fn = copy.deepcopy(meth)
            fn.name = new_name
            if src is not tree and not _bring_names(fn, _module_bindings(src), src_mod, tree, here):
                continue
            tree.body.append(fn)
            here[new_name] = ("local", None, None)
            copied[new_name] = fn
            done.append(f"{cname}.{f.attr}")
        call.args = [f.value] + list(call.args)
        call.func = ast.copy_location(ast.Name(id=new_name, ctx=ast.Load()), f)
    done += _fold_instance_constants(tree, inst, classes, trees, pkg)
    if done:
        ast.fix_missing_locations(tree)
    return done


def _fold_instance_constants(tree, inst, classes, trees, pkg):
    """X = C(256) at module level (here or in the module X was imported from), C a plain class whose constructor only stores its
    parameters (`self.size = size`, or a dataclass field list), and nothing ever stores into an attribute of X: `X.size` is 256."""
    folded = []
    ctor_of = {}
    for st in tree.body:
        if isinstance(st, ast.Assign) and isinstance(st.value, ast.Call):
            for t in st.targets:
                if isinstance(t, ast.Name) and t.id in inst:
                    ctor_of[t.id] = st.value
        if isinstance(st, ast.ImportFrom) and st.module:
            parts = st.module.split(".")
            if parts[0] == pkg and len(parts) == 2 and parts[1] in trees:
                for a in st.names:
                    nm = a.asname or a.name
                    if nm in inst and nm not in ctor_of:
                        d = next((x for x in trees[parts[1]].body if isinstance(x, ast.Assign) and any(isinstance(t, ast.Name) and t.id == a.name for t in x.targets) and isinstance(x.value, ast.Call)), None)
                        if d is not None:
                            ctor_of[nm] = d.value
    for name, call in ctor_of.items():
        cdef = classes[inst[name]][0]
        if call.keywords and any(k.arg is None for k in call.keywords) or any(isinstance(a, ast.Starred) for a in call.args):
            continue
        fields = None
        init = next((m for m in cdef.body if isinstance(m, ast.FunctionDef) and m.name == "__init__"), None)
        is_dc = any("dataclass" in ast.unparse(d) for d in cdef.decorator_list)
        if init is not None:
            params = [a.arg for a in init.args.args[1:]]
            body = [b for b in init.body if not (isinstance(b, ast.Expr) and isinstance(b.value, ast.Constant))]
            if all(isinstance(b, ast.Assign) and len(b.targets) == 1 and isinstance(b.targets[0], ast.Attribute) and isinstance(b.targets[0].value, ast.Name)
                   and b.targets[0].value.id == init.args.args[0].arg and isinstance(b.value, ast.Name) and b.value.id in params for b in body) and not init.args.vararg and not init.args.kwarg:
                fields = {b.targets[0].attr: b.value.id for b in body}
        elif is_dc:
            params = [b.target.id for b in cdef.body if isinstance(b, ast.AnnAssign) and isinstance(b.target, ast.Name)]
            fields = {p_: p_ for p_ in params}
        if not fields:
            continue
        actual = dict(zip(params, call.args))
        actual.update({k.arg: k.value for k in call.keywords})
        stored = any(isinstance(x, ast.Attribute) and isinstance(x.ctx, (ast.Store, ast.Del)) and isinstance(x.value, ast.Name) and x.value.id == name for x in ast.walk(tree))
        if stored:
            continue

        class F(ast.NodeTransformer):
            def visit_Attribute(self, node):
                self.generic_visit(node)
                if isinstance(node.ctx, ast.Load) and isinstance(node.value, ast.Name) and node.value.id == name and node.attr in fields \
                        and isinstance(actual.get(fields[node.attr]), ast.Constant):
                    folded.append(f"{name}.{node.attr}")
                    return ast.copy_location(ast.Constant(value=actual[fields[node.attr]].value), node)
                return node
        F().visit(tree)
    return sorted(set(folded))


def flag_and_loops(tree):
    """v = True; for n in (c1, c2, ..): if not v: break; v = E(n)      ==>   v = E(c1) and E(c2) and ..
    (the loop evaluates E for one constant after the other and stops at the first falsy result, which it leaves in v: an `and` chain)"""
    n_ = 0
    for holder in ast.walk(tree):
        for field in ("body", "orelse", "finalbody"):
            blk = getattr(holder, field, None)
            if not isinstance(blk, list) or len(blk) < 2 or not all(isinstance(b, ast.stmt) for b in blk):
                continue
            i = 0
            while i + 1 < len(blk):
                a, lp = blk[i], blk[i + 1]
                i += 1
                if not (isinstance(a, ast.Assign) and len(a.targets) == 1 and isinstance(a.targets[0], ast.Name) and isinstance(a.value, ast.Constant) and a.value.value is True):
                    continue
                v = a.targets[0].id
                if not (isinstance(lp, ast.For) and not lp.orelse and isinstance(lp.target, ast.Name) and isinstance(lp.iter, (ast.Tuple, ast.List)) and 0 < len(lp.iter.elts) <= 16
                        and all(isinstance(e, ast.Constant) for e in lp.iter.elts) and len(lp.body) == 2):
                    continue
                g, st = lp.body
                if not (isinstance(g, ast.If) and not g.orelse and len(g.body) == 1 and isinstance(g.body[0], ast.Break) and isinstance(g.test, ast.UnaryOp) and isinstance(g.test.op, ast.Not)
                        and isinstance(g.test.operand, ast.Name) and g.test.operand.id == v):
                    continue
                if not (isinstance(st, ast.Assign) and len(st.targets) == 1 and isinstance(st.targets[0], ast.Name) and st.targets[0].id == v
                        and not any(isinstance(y, ast.Name) and y.id == v for y in ast.walk(st.value)) and not any(isinstance(y, ast.NamedExpr) for y in ast.walk(st.value))):
                    continue
                name = lp.target.id
                if any(isinstance(y, ast.Name) and y.id == name for b in blk[i + 1:] for y in ast.walk(b)):
                    continue
                vals = []
                for c in lp.iter.elts:
                    class S(ast.NodeTransformer):
                        def visit_Name(self, node):
                            return copy.deepcopy(c) if node.id == name and isinstance(node.ctx, ast.Load) else node
                    vals.append(S().visit(copy.deepcopy(st.value)))
                a.value = vals[0] if len(vals) == 1 else ast.BoolOp(op=ast.And(), values=vals)
                del blk[i]
                n_ += 1
    if n_:
        ast.fix_missing_locations(tree)
    return n_


def sink_none_tests(tree):
    """if a: v = 'why' elif b: v = None else: v = f'..'          ==>   if a: v = 'why'; BODY  elif b: v = None  else: v = f'..'; BODY
       if v is not None: BODY
    Every leaf of the if-chain ends by binding v to a string literal / f-string (never None) or to None, and the statement right
    after the chain tests `v is not None` (or `v is None: .. else: BODY`): the test is decided in each leaf."""
    n_ = 0

    def leaves(stmts, out):
        """collect (block, index of last stmt) of every leaf; False when some leaf does not end in `v = ..`"""
        if not stmts:
            return False
        last = stmts[-1]
        if isinstance(last, ast.If) and last.orelse:
            return leaves(last.body, out) and leaves(last.orelse, out)
        out.append(stmts)
        return True

    for holder in ast.walk(tree):
        for field in ("body", "orelse", "finalbody"):
            blk = getattr(holder, field, None)
            if not isinstance(blk, list) or len(blk) < 2 or not all(isinstance(b, ast.stmt) for b in blk):
                continue
            i = 0
            while i + 1 < len(blk):
                chain, test = blk[i], blk[i + 1]
                i += 1
                if not (isinstance(chain, ast.If) and chain.orelse and isinstance(test, ast.If)):
                    continue
                t = test.test
                if not (isinstance(t, ast.Compare) and len(t.ops) == 1 and isinstance(t.ops[0], (ast.Is, ast.IsNot)) and isinstance(t.left, ast.Name)
                        and isinstance(t.comparators[0], ast.Constant) and t.comparators[0].value is None):
                    continue
                v = t.left.id
                some, none = (test.body, test.orelse) if isinstance(t.ops[0], ast.IsNot) else (test.orelse, test.body)
                ls = []
                if not leaves([chain], ls):
                    continue
                kinds = []
                for leaf in ls:
                    a = leaf[-1]
                    if not (isinstance(a, ast.Assign) and len(a.targets) == 1 and isinstance(a.targets[0], ast.Name) and a.targets[0].id == v):
                        kinds = None
                        break
                    if isinstance(a.value, ast.Constant) and a.value.value is None:
                        kinds.append("none")
                    elif isinstance(a.value, ast.JoinedStr) or (isinstance(a.value, ast.Constant) and isinstance(a.value.value, (str, bytes, int, float, bool, tuple))):
                        kinds.append("some")
                    else:
                        kinds = None
                        break
                if not kinds:
                    continue
                for leaf, k in zip(ls, kinds):
                    leaf.extend(copy.deepcopy(some if k == "some" else none))
                del blk[i]
                n_ += 1
    if n_:
        ast.fix_missing_locations(tree)
    return n_


def sink_classifier_tests(tree):
    """if a: k = K.x  else: k = K.y if b else K.z          ==>   if a: k = K.x; X   else: (if b: k = K.y; Y  else: k = K.z; Z)
       if k is K.x: X  elif k is K.y: Y  else: Z
    Every leaf of the first statement binds k to a member of an enumeration of this module (distinct values) or to a literal, and
    the statement right after it is an if/elif chain whose tests only compare k with such constants: which arm runs is known in
    each leaf."""
    n_ = 0

    def const_key(e):
        if isinstance(e, ast.Attribute) and isinstance(e.value, ast.Name) and e.value.id in _ENUM_VALUES and e.attr in _ENUM_VALUES[e.value.id]:
            vals = _ENUM_VALUES[e.value.id]
            if len(set(map(repr, vals.values()))) == len(vals):
                return ("enum", e.value.id, e.attr)
        if isinstance(e, ast.Constant) and isinstance(e.value, (int, str, bool)) or (isinstance(e, ast.Constant) and e.value is None):
            return ("lit", repr(e.value))
        return None

    def split_leaf_ifexp(stmts, v):
        """k = A if c else B as the last statement -> if c: k = A else: k = B"""
        if stmts and isinstance(stmts[-1], ast.Assign) and len(stmts[-1].targets) == 1 and isinstance(stmts[-1].targets[0], ast.Name) and isinstance(stmts[-1].value, ast.IfExp):
            a = stmts[-1]
            mk = lambda val: ast.copy_location(ast.Assign(targets=[ast.Name(id=a.targets[0].id, ctx=ast.Store())], value=val, lineno=a.lineno), a)
            b1, b2 = [mk(a.value.body)], [mk(a.value.orelse)]
            split_leaf_ifexp(b1, v)
            split_leaf_ifexp(b2, v)
            stmts[-1] = ast.copy_location(ast.If(test=a.value.test, body=b1, orelse=b2), a)

    def leaves(stmts, out):
        if not stmts:
            return False
        last = stmts[-1]
        if isinstance(last, ast.If) and last.orelse:
            return leaves(last.body, out) and leaves(last.orelse, out)
        out.append(stmts)
        return True

    for holder in ast.walk(tree):
        for field in ("body", "orelse", "finalbody"):
            blk = getattr(holder, field, None)
            if not isinstance(blk, list) or len(blk) < 2 or not all(isinstance(b, ast.stmt) for b in blk):
                continue
            i = 0
            while i + 1 < len(blk):
                first, chain = blk[i], blk[i + 1]
                i += 1
                if not isinstance(chain, ast.If):
                    continue
                # the chain's tests: v is/== K
                arms, cur, v = [], chain, None
                okc = True
                while True:
                    t = cur.test
                    if not (isinstance(t, ast.Compare) and len(t.ops) == 1 and isinstance(t.ops[0], (ast.Is, ast.Eq)) and isinstance(t.left, ast.Name) and const_key(t.comparators[0]) is not None
                            and const_key(t.comparators[0])[0] == "enum"):
                        okc = False
                        break
                    if v is None:
                        v = t.left.id
                    elif v != t.left.id:
                        okc = False
                        break
                    arms.append((const_key(t.comparators[0]), cur.body))
                    if len(cur.orelse) == 1 and isinstance(cur.orelse[0], ast.If):
                        cur = cur.orelse[0]
                        continue
                    default = cur.orelse
                    break
                if not okc or v is None:
                    continue
                trial = copy.deepcopy(first)
                holder_list = [trial]
                if isinstance(trial, ast.Assign):
                    split_leaf_ifexp(holder_list, v)
                    trial = holder_list[0]
                if not (isinstance(trial, ast.If) and trial.orelse):
                    continue
                # split conditional-expression leaves first
                pre = []
                if not leaves([trial], pre):
                    continue
                for leaf in pre:
                    split_leaf_ifexp(leaf, v)
                ls = []
                if not leaves([trial], ls):
                    continue
                keys = []
                for leaf in ls:
                    a = leaf[-1]
                    if not (isinstance(a, ast.Assign) and len(a.targets) == 1 and isinstance(a.targets[0], ast.Name) and a.targets[0].id == v and const_key(a.value) is not None):
                        keys = None
                        break
                    keys.append(const_key(a.value))
                if not keys:
                    continue
                for leaf, k in zip(ls, keys):
                    chosen = next((body for kk, body in arms if kk == k), default)
                    leaf.extend(copy.deepcopy(chosen))
                blk[i - 1] = trial
                del blk[i]
                n_ += 1
    if n_:
        ast.fix_missing_locations(tree)
    return n_


def protective_enter(tree):
    """def __enter__(self): try: BODY  except BaseException: <release what was acquired>; raise       ==>   def __enter__(self): BODY
    The wrapper only matters when BODY fails (then it closes the handle, resets flags and re-raises); on every path that enters
    the context it is BODY.  The rules over __enter__ describe the entered context; the failing path is decided by C08's
    enter-failure rule on the un-normalised source."""
    n = 0
    for cls in [c for c in tree.body if isinstance(c, ast.ClassDef)]:
        for fn in [m for m in cls.body if isinstance(m, ast.FunctionDef) and m.name == "__enter__"]:
            body = strip_doc(fn.body)
            if body and isinstance(body[0], ast.Try) and not any(isinstance(x, ast.Try) for b in body[1:] for x in ast.walk(b)) and not body[0].finalbody and body[0].handlers \
                    and all(h.body and isinstance(h.body[-1], ast.Raise) and h.body[-1].exc is None for h in body[0].handlers):
                harmless = True
                for h in body[0].handlers:
                    for x in ast.walk(h):
                        # whatever the handler does to release things, it must not write: that would be an effect of entering a context
                        if isinstance(x, ast.Call) and isinstance(x.func, ast.Attribute) and x.func.attr in ("write", "writelines", "truncate", "bwrite", "_write", "bpad", "seek", "unlink", "rename", "replace"):
                            harmless = False
                if harmless:
                    # the handlers never fall through, so what follows the try statement follows its body
                    fn.body = [b for b in fn.body if b not in body] + body[0].body + body[0].orelse + body[1:]
                    n += 1
    if n:
        ast.fix_missing_locations(tree)
    return n


def positional_args(tree):
    """self.m(b=2, a=1) / f(a=1, b=2)  ==>  self.m(1, 2) / f(1, 2)   for methods of the enclosing class and functions of the module
    whose parameter list is plain (no *args / **kwargs / keyword-only) and when the keywords fill a prefix of it without gaps.
    (Keyword values are evaluated in the order written; reordering is done only when they are free of calls.)"""
    n = 0

    def plain(fn, drop_first):
        a = fn.args
        if a.vararg or a.kwarg or a.kwonlyargs or a.posonlyargs:
            return None
        names = [x.arg for x in a.args]
        return names[1:] if drop_first else names

    modfuncs = {f.name: plain(f, False) for f in tree.body if isinstance(f, ast.FunctionDef)}

    def fix(call, params):
        nonlocal n
        if params is None or not call.keywords or any(k.arg is None for k in call.keywords) or any(isinstance(a, ast.Starred) for a in call.args):
            return
        npos = len(call.args)
        kw = {k.arg: k.value for k in call.keywords}
        if len(kw) != len(call.keywords) or any(k not in params[npos:] for k in kw):
            return
        want = params[npos:npos + len(kw)]
        if set(want) != set(kw):
            return      # a gap: a defaulted parameter in between is left to its default
        in_order = [k.arg for k in call.keywords] == want
        if not in_order and any(isinstance(x, (ast.Call, ast.NamedExpr, ast.Await)) for v in kw.values() for x in ast.walk(v)):
            return
        call.args = list(call.args) + [kw[p] for p in want]
        call.keywords = []
        n += 1

    for cls in [c for c in tree.body if isinstance(c, ast.ClassDef)]:
        meths = {}
        for m in cls.body:
            if isinstance(m, ast.FunctionDef):
                decs = [ast.unparse(d) for d in m.decorator_list]
                if any(d.endswith(".setter") or d == "property" for d in decs):
                    continue
                meths.setdefault(m.name, []).append(plain(m, "staticmethod" not in decs))
        for call in [c for c in ast.walk(cls) if isinstance(c, ast.Call)]:
            f = call.func
            if isinstance(f, ast.Attribute) and isinstance(f.value, ast.Name) and f.value.id in ("self", "cls", cls.name) and len(meths.get(f.attr, [])) == 1:
                fix(call, meths[f.attr][0])
    for call in [c for c in ast.walk(tree) if isinstance(c, ast.Call)]:
        if isinstance(call.func, ast.Name) and call.func.id in modfuncs:
            fix(call, modfuncs[call.func.id])
    return n


def _inline_helpers(tree, bases, info):
    """the helper inlining loop; returns True when a call site was inlined"""
    any_change = False
    # f(self, a..) where `f` is a plain method of the enclosing class and no module-level name   ==>   self.f(a..)
    # (the function object taken from the class body, e.g. out of a class-level table of lookups, applied to the instance)
    modnames = {x.name for x in tree.body if isinstance(x, (ast.FunctionDef, ast.ClassDef))} \
        | {a.asname or a.name.split(".")[0] for x in tree.body if isinstance(x, (ast.Import, ast.ImportFrom)) for a in x.names} \
        | {t.id for x in tree.body if isinstance(x, ast.Assign) for t in x.targets if isinstance(t, ast.Name)}
    for cls_ in [x for x in tree.body if isinstance(x, ast.ClassDef)]:
        plain = {m.name for m in cls_.body if isinstance(m, ast.FunctionDef) and not m.decorator_list and m.args.args and m.args.args[0].arg == "self"} - modnames
        if not plain:
            continue
        for m in [m for m in cls_.body if isinstance(m, ast.FunctionDef)]:
            bound_here = {a.arg for a in m.args.args + m.args.kwonlyargs} | {x.id for x in ast.walk(m) if isinstance(x, ast.Name) and isinstance(x.ctx, ast.Store)}
            for c in ast.walk(m):
                if isinstance(c, ast.Call) and isinstance(c.func, ast.Name) and c.func.id in plain and c.func.id not in bound_here and c.args \
                        and isinstance(c.args[0], ast.Name) and c.args[0].id == "self":
                    c.func = ast.copy_location(ast.Attribute(value=c.args[0], attr=c.func.id, ctx=ast.Load()), c.func)
                    c.args = c.args[1:]
    for _ in range(3):
        helpers = collect_helpers(tree)
        if not helpers:
            break
        inl = Inliner(helpers, bases)
        defs_ = {}
        for x_ in ast.walk(tree):
            if isinstance(x_, ast.FunctionDef):
                defs_[x_.name] = defs_.get(x_.name, 0) + 1
        inl.ambiguous = {k_ for k_, v_ in defs_.items() if v_ > 1} | {x_.attr for x_ in ast.walk(tree) if isinstance(x_, ast.Attribute) and isinstance(x_.ctx, (ast.Store, ast.Del))}
        changed = False
        for st in tree.body:
            if isinstance(st, ast.FunctionDef):
                changed |= inl.process_function(st, None)
            elif isinstance(st, ast.ClassDef):
                for s in st.body:
                    if isinstance(s, ast.FunctionDef):
                        changed |= inl.process_function(s, st.name)
        for k, v in inl.inlined_sites.items():
            info["inlined"][f"{k[0] + '.' if k[0] else ''}{k[1]}"] = info["inlined"].get(f"{k[0] + '.' if k[0] else ''}{k[1]}", 0) + v
        # drop helpers with no remaining call sites
        remaining = set()
        for n in ast.walk(tree):
            if isinstance(n, ast.Call):
                f = n.func
                if isinstance(f, ast.Name):
                    remaining.add(f.id)
                elif isinstance(f, ast.Attribute):
                    remaining.add(f.attr)
            elif isinstance(n, ast.Attribute) and isinstance(n.ctx, ast.Load):
                remaining.add(n.attr)
            elif isinstance(n, ast.Name) and isinstance(n.ctx, ast.Load):
                remaining.add(n.id)
        for (cname, fname), h in helpers.items():
            if (cname, fname) in inl.inlined_sites and fname not in remaining:
                if cname is None:
                    tree.body = [s for s in tree.body if s is not h.node]
                else:
                    for st in tree.body:
                        if isinstance(st, ast.ClassDef) and st.name == cname:
                            st.body = [s for s in st.body if s is not h.node] or [ast.Pass()]
                info["dropped_helpers"].append(f"{cname + '.' if cname else ''}{fname}")
        any_change |= changed
        if not changed:
            break
    return any_change


# ------------------------------------------------------------------------------------------- driver
class _StripFunctionAnnotations(ast.NodeTransformer):
    """Inside function bodies an annotation is a no-op at run time: `x: T = v` is `x = v`, `self.a: T = v` is `self.a = v`, a bare
    `x: T` does nothing.  (Class bodies are left alone: there annotations are what dataclasses / NamedTuples are made of.)"""

    def __init__(self):
        self.depth = 0

    def visit_FunctionDef(self, node):
        self.depth += 1
        self.generic_visit(node)
        self.depth -= 1
        if not node.body:
            node.body = [ast.Pass()]
        return node

    visit_AsyncFunctionDef = visit_FunctionDef

    def visit_ClassDef(self, node):
        d, self.depth = self.depth, 0
        self.generic_visit(node)
        self.depth = d
        return node

    def visit_AnnAssign(self, node):
        if not self.depth:
            return node
        if node.value is None:
            return None
        return ast.copy_location(ast.Assign(targets=[node.target], value=node.value), node)


def _fix_empty_bodies(tree):
    for n in ast.walk(tree):
        for fld in ("body", "orelse", "finalbody"):
            b = getattr(n, fld, None)
            if isinstance(b, list) and not b and fld == "body" and isinstance(n, (ast.If, ast.For, ast.While, ast.With, ast.Try, ast.FunctionDef, ast.ExceptHandler)):
                setattr(n, fld, [ast.Pass()])


def _drop_overload_stubs(tree):
    """`@overload def f(..): ...` stubs are replaced by the last, undecorated definition of the same name when the class / module
    body runs: they never execute."""
    for n in ast.walk(tree):
        b = getattr(n, "body", None)
        if isinstance(n, (ast.Module, ast.ClassDef)) and isinstance(b, list):
            stubs = [st for st in b if isinstance(st, ast.FunctionDef) and any(ast.unparse(d) in ("overload", "typing.overload") for d in st.decorator_list)]
            for st in stubs:
                if any(o is not st and isinstance(o, ast.FunctionDef) and o.name == st.name and b.index(o) > b.index(st)
                       and not any(ast.unparse(d) in ("overload", "typing.overload") for d in o.decorator_list) for o in b):
                    b.remove(st)


class _SuppressToTry(ast.NodeTransformer):
    """with contextlib.suppress(E1, E2): BODY     ==>     try: BODY  except (E1, E2): pass"""

    def visit_With(self, node):
        self.generic_visit(node)
        if len(node.items) == 1 and node.items[0].optional_vars is None and isinstance(node.items[0].context_expr, ast.Call) \
                and ast.unparse(node.items[0].context_expr.func) in ("suppress", "contextlib.suppress") and node.items[0].context_expr.args \
                and not node.items[0].context_expr.keywords:
            excs = node.items[0].context_expr.args
            typ = excs[0] if len(excs) == 1 else ast.Tuple(elts=list(excs), ctx=ast.Load())
            t = ast.copy_location(ast.Try(body=node.body, handlers=[ast.ExceptHandler(type=typ, name=None, body=[ast.Pass()])], orelse=[], finalbody=[]), node)
            t._from_suppress = True
            return t
        return node


def _absorb_after_suppress(tree):
    """try: ..; return X  except E: pass ; REST      ==>     try: ..; return X  except E: REST
    (the body never falls through, so only the handler reaches REST)"""
    import copy as _cp
    for n in ast.walk(tree):
        for fld in ("body", "orelse", "finalbody"):
            b = getattr(n, fld, None)
            if not isinstance(b, list):
                continue
            for i, st in enumerate(b):
                if isinstance(st, ast.Try) and getattr(st, "_from_suppress", False) and st.body and isinstance(st.body[-1], (ast.Return, ast.Raise)) and i + 1 < len(b):
                    rest = b[i + 1:]
                    st.handlers[0].body = [_cp.deepcopy(x) for x in rest]
                    del b[i + 1:]
                    break


def _merge_private_bases(tree):
    """class _B: <members>       class C(_B): <members>     with _B private, defined in this module, without bases / decorators /
    metaclass of its own, subclassed by C only and named nowhere else: C's attribute lookup finds _B's members exactly where it
    would find its own, so they are moved into C (those C does not define itself) and the base is dropped."""
    n = 0
    classes = {c.name: c for c in tree.body if isinstance(c, ast.ClassDef)}
    for b in list(classes.values()):
        if not b.name.startswith("_") or b.bases or b.keywords or b.decorator_list:
            continue
        subs = [c for c in classes.values() if any(isinstance(x, ast.Name) and x.id == b.name for x in c.bases)]
        uses = [x for x in ast.walk(tree) if isinstance(x, ast.Name) and x.id == b.name]
        if len(subs) != 1 or len(uses) != 1 or len(subs[0].bases) != 1 or subs[0].keywords:
            continue
        c = subs[0]
        if any(isinstance(m, ast.FunctionDef) and any(isinstance(y, ast.Call) and ast.unparse(y.func) == "super" for y in ast.walk(m)) for m in b.body + c.body):
            continue
        own = {m.name for m in c.body if isinstance(m, (ast.FunctionDef, ast.ClassDef))} | {t.id for m in c.body if isinstance(m, ast.Assign) for t in m.targets if isinstance(t, ast.Name)}
        moved = [m for m in b.body if not (isinstance(m, ast.Expr) and isinstance(m.value, ast.Constant)) and not (isinstance(m, ast.FunctionDef) and m.name in own)
                 and not (isinstance(m, ast.Assign) and any(isinstance(t, ast.Name) and t.id in own for t in m.targets)) and not isinstance(m, ast.Pass)]
        doc = [m for m in c.body[:1] if isinstance(m, ast.Expr) and isinstance(m.value, ast.Constant)]
        c.body = doc + moved + c.body[len(doc):]
        c.bases = []
        tree.body.remove(b)
        n += 1
    return n


class _LoopPrefixSkip(ast.NodeTransformer):
    """for n, x in enumerate(XS): if n <= K: continue; BODY      ==>     for n, x in enumerate(XS[K + 1:], start=K + 1): BODY
       (`n < K` -> XS[K:], start=K).  K is a plain name that the loop does not assign; XS a name / attribute chain the loop header
       evaluates once either way.  Same elements, same order, same values of n inside BODY."""

    def visit_For(self, node):
        self.generic_visit(node)
        it = node.iter
        if not (isinstance(it, ast.Call) and ast.unparse(it.func) == "enumerate" and len(it.args) == 1 and not it.keywords and isinstance(node.target, ast.Tuple)
                and len(node.target.elts) == 2 and all(isinstance(e, ast.Name) for e in node.target.elts) and not node.orelse and len(node.body) >= 2):
            return node
        xs = it.args[0]
        if not all(isinstance(y, (ast.Name, ast.Attribute, ast.Load)) for y in ast.walk(xs)):
            return node
        n = node.target.elts[0].id
        g = node.body[0]
        if not (isinstance(g, ast.If) and not g.orelse and len(g.body) == 1 and isinstance(g.body[0], ast.Continue) and isinstance(g.test, ast.Compare) and len(g.test.ops) == 1
                and isinstance(g.test.left, ast.Name) and g.test.left.id == n and isinstance(g.test.ops[0], (ast.Lt, ast.LtE)) and isinstance(g.test.comparators[0], ast.Name)):
            return node
        k = g.test.comparators[0].id
        if any(isinstance(y, ast.Name) and y.id in (k, n) and isinstance(y.ctx, ast.Store) for b in node.body for y in ast.walk(b)):
            return node
        if any(isinstance(y, (ast.Break,)) for b in node.body[1:] for y in ast.walk(b)) and False:
            return node
        lo = ast.Name(id=k, ctx=ast.Load()) if isinstance(g.test.ops[0], ast.Lt) else ast.BinOp(left=ast.Name(id=k, ctx=ast.Load()), op=ast.Add(), right=ast.Constant(value=1))
        import copy as _cp
        node.iter = ast.Call(func=it.func, args=[ast.Subscript(value=xs, slice=ast.Slice(lower=_cp.deepcopy(lo), upper=None, step=None), ctx=ast.Load())],
                             keywords=[ast.keyword(arg="start", value=_cp.deepcopy(lo))])
        node.body = node.body[1:]
        return ast.fix_missing_locations(node)


class _BytesIOWith(ast.NodeTransformer):
    """with BytesIO() as b: BODY     ==>     b = BytesIO(); BODY      (closing an in-memory buffer has no effect a caller can see;
    what BODY took out of it - getvalue() - is a copy)"""

    def visit_With(self, node):
        self.generic_visit(node)
        if len(node.items) == 1 and isinstance(node.items[0].optional_vars, ast.Name) and isinstance(node.items[0].context_expr, ast.Call) \
                and ast.unparse(node.items[0].context_expr.func) in ("BytesIO", "io.BytesIO") and not node.items[0].context_expr.args and not node.items[0].context_expr.keywords:
            b = node.items[0].optional_vars.id
            return [ast.copy_location(ast.Assign(targets=[ast.Name(id=b, ctx=ast.Store())], value=node.items[0].context_expr), node)] + node.body
        return node


def _success_flag_finally(tree):
    """ok = False                                        try:
       try:                                                   BODY
           BODY; ok = True; [return X]        ==>             [return X]
       finally:                                            except BaseException:
           if not ok: CLEANUP                                  CLEANUP
                                                               raise
    The flag is a local that is assigned exactly twice (False before the try, True as the last statement before the end / the single
    trailing return of the try body) and read only by the finally test: CLEANUP runs exactly on the paths that leave BODY by an
    exception, and the exception goes on."""
    n = 0
    for fn in [f for f in ast.walk(tree) if isinstance(f, ast.FunctionDef)]:
        for holder in ast.walk(fn):
            for fld in ("body", "orelse", "finalbody"):
                blk = getattr(holder, fld, None)
                if not isinstance(blk, list):
                    continue
                for i in range(len(blk) - 1):
                    a, t = blk[i], blk[i + 1]
                    if not (isinstance(a, ast.Assign) and len(a.targets) == 1 and isinstance(a.targets[0], ast.Name) and isinstance(a.value, ast.Constant) and a.value.value is False):
                        continue
                    flag = a.targets[0].id
                    if not (isinstance(t, ast.Try) and not t.handlers and not t.orelse and len(t.finalbody) == 1 and isinstance(t.finalbody[0], ast.If) and not t.finalbody[0].orelse):
                        continue
                    test = t.finalbody[0].test
                    if not (isinstance(test, ast.UnaryOp) and isinstance(test.op, ast.Not) and isinstance(test.operand, ast.Name) and test.operand.id == flag):
                        continue
                    body = t.body
                    tail = body[-1:] if body and isinstance(body[-1], ast.Return) else []
                    core = body[:-1] if tail else body
                    if not core or not (isinstance(core[-1], ast.Assign) and len(core[-1].targets) == 1 and isinstance(core[-1].targets[0], ast.Name) and core[-1].targets[0].id == flag
                                        and isinstance(core[-1].value, ast.Constant) and core[-1].value.value is True):
                        continue
                    uses = [x for x in ast.walk(fn) if isinstance(x, ast.Name) and x.id == flag]
                    if len(uses) != 3:
                        continue
                    if tail and tail[0].value is not None and any(isinstance(y, ast.Call) for y in ast.walk(tail[0].value)):
                        continue   # a call in the returned expression could raise after the flag was set
                    if any(isinstance(y, (ast.Return, ast.Break, ast.Continue)) for b in core[:-1] for y in ast.walk(b) if not isinstance(b, (ast.FunctionDef,))):
                        continue
                    handler = ast.ExceptHandler(type=ast.Name(id="BaseException", ctx=ast.Load()), name=None, body=list(t.finalbody[0].body) + [ast.Raise(exc=None, cause=None)])
                    new_try = ast.copy_location(ast.Try(body=core[:-1] + tail, handlers=[handler], orelse=[], finalbody=[]), t)
                    blk[i:i + 2] = [new_try]
                    n += 1
                    break
    if n:
        ast.fix_missing_locations(tree)
    return n


def _inline_vararg_forwarders(tree):
    """def _h(a, f, *args): [return] E(a, f, *args)          _h(x, F, p, q)      ==>     E(x, F, p, q)
    A private module-level function of one expression whose `*args` is only forwarded (`g(*args)`), called with plain positional
    arguments (names, attribute chains, constants): the call is that expression with the parameters replaced - which also
    resolves a function passed as an argument (`to_bytes(*args)` becomes `BTSString.write(size, data)`)."""
    import copy as _cp
    n = 0
    helpers = {}
    for fn in [f for f in tree.body if isinstance(f, ast.FunctionDef) and f.name.startswith("_") and not f.decorator_list]:
        a = fn.args
        if a.vararg is None or a.kwarg or a.kwonlyargs or a.defaults or a.posonlyargs:
            continue
        body = [b for b in fn.body if not (isinstance(b, ast.Expr) and isinstance(b.value, ast.Constant))]
        if len(body) != 1 or not isinstance(body[0], (ast.Expr, ast.Return)) or body[0].value is None:
            continue
        e = body[0].value
        v = a.vararg.arg
        uses = [x for x in ast.walk(e) if isinstance(x, ast.Name) and x.id == v]
        starred = [x for x in ast.walk(e) if isinstance(x, ast.Starred) and isinstance(x.value, ast.Name) and x.value.id == v]
        if not uses or len(uses) != len(starred) or any(isinstance(x, (ast.Lambda, ast.GeneratorExp, ast.ListComp, ast.NamedExpr)) for x in ast.walk(e)):
            continue
        params = [p.arg for p in a.args]
        if any(sum(1 for x in ast.walk(e) if isinstance(x, ast.Name) and x.id == p) != 1 for p in params):
            continue   # each parameter evaluated exactly once, so substitution keeps the number of evaluations
        helpers[fn.name] = (fn, params, v, e, isinstance(body[0], ast.Return))
    if not helpers:
        return 0
    plain = lambda x: isinstance(x, (ast.Name, ast.Constant)) or (isinstance(x, ast.Attribute) and plain(x.value))

    class Inl(ast.NodeTransformer):
        def visit_Call(self, node):
            self.generic_visit(node)
            if isinstance(node.func, ast.Name) and node.func.id in helpers and not node.keywords and all(plain(x) for x in node.args):
                fn, params, v, e, _ = helpers[node.func.id]
                if len(node.args) < len(params):
                    return node
                bind = dict(zip(params, node.args[:len(params)]))
                rest = node.args[len(params):]

                class Sub(ast.NodeTransformer):
                    def visit_Name(self, x):
                        return _cp.deepcopy(bind[x.id]) if x.id in bind and isinstance(x.ctx, ast.Load) else x

                    def visit_Call(self, c):
                        self.generic_visit(c)
                        new_args = []
                        for arg in c.args:
                            if isinstance(arg, ast.Starred) and isinstance(arg.value, ast.Name) and arg.value.id == v:
                                new_args += [_cp.deepcopy(r) for r in rest]
                            else:
                                new_args.append(arg)
                        c.args = new_args
                        return c
                nonlocal_n[0] += 1
                return ast.copy_location(Sub().visit(_cp.deepcopy(e)), node)
            return node
    nonlocal_n = [0]
    for st in tree.body:
        if isinstance(st, ast.FunctionDef) and st.name in helpers:
            continue
        Inl().visit(st)
    n = nonlocal_n[0]
    if n:
        # a forwarder nothing names any more is dead
        for name, (fn, *_r) in helpers.items():
            if not any(isinstance(x, ast.Name) and x.id == name for st in tree.body if st is not fn for x in ast.walk(st)):
                tree.body.remove(fn)
        ast.fix_missing_locations(tree)
    return n


def _unroll_constant_table_loops(tree):
    """_TABLE = (("a", u32), ("b", i32))  at module level, bound once;   for name, codec in _TABLE: BODY(name, codec)
       ==>   BODY("a", u32); BODY("b", i32)
    The table is a display of at most 16 rows whose cells are string / number constants or plain names; the loop has no else,
    break or continue and does not assign its targets.  `getattr(x, "a")` with the literal now in place is `x.a`."""
    import copy as _cp
    n = 0
    stores = {}
    for x in ast.walk(tree):
        if isinstance(x, ast.Name) and isinstance(x.ctx, ast.Store):
            stores[x.id] = stores.get(x.id, 0) + 1
    tables = {}
    for st in tree.body:
        if isinstance(st, ast.Assign) and len(st.targets) == 1 and isinstance(st.targets[0], ast.Name) and stores.get(st.targets[0].id) == 1 \
                and isinstance(st.value, (ast.Tuple, ast.List)) and 1 <= len(st.value.elts) <= 16:
            cell = lambda c: isinstance(c, ast.Constant) and isinstance(c.value, (str, int, float)) or isinstance(c, ast.Name)
            rows = st.value.elts
            if all(cell(r) for r in rows) or (all(isinstance(r, ast.Tuple) and r.elts and all(cell(c) for c in r.elts) for r in rows) and len({len(r.elts) for r in rows}) == 1):
                tables[st.targets[0].id] = rows

    class U(ast.NodeTransformer):
        def visit_For(self, node):
            self.generic_visit(node)
            if not (isinstance(node.iter, ast.Name) and node.iter.id in tables and not node.orelse):
                return node
            rows = tables[node.iter.id]
            tg = [node.target.id] if isinstance(node.target, ast.Name) else [e.id for e in node.target.elts] if isinstance(node.target, ast.Tuple) and all(isinstance(e, ast.Name) for e in node.target.elts) else None
            if tg is None or any(isinstance(y, (ast.Break, ast.Continue)) for b in node.body for y in ast.walk(b)) \
                    or any(isinstance(y, ast.Name) and y.id in tg and isinstance(y.ctx, ast.Store) for b in node.body for y in ast.walk(b)):
                return node
            if (len(tg) == 1) != (not isinstance(rows[0], ast.Tuple)) or (isinstance(rows[0], ast.Tuple) and len(rows[0].elts) != len(tg)):
                return node
            out = []
            for r in rows:
                vals = dict(zip(tg, r.elts if isinstance(r, ast.Tuple) else [r]))

                class S(ast.NodeTransformer):
                    def visit_Name(self, x):
                        return _cp.deepcopy(vals[x.id]) if x.id in vals and isinstance(x.ctx, ast.Load) else x

                    def visit_Call(self, c):
                        self.generic_visit(c)
                        if isinstance(c.func, ast.Name) and c.func.id == "getattr" and len(c.args) == 2 and not c.keywords and isinstance(c.args[1], ast.Constant) \
                                and isinstance(c.args[1].value, str) and c.args[1].value.isidentifier():
                            return ast.copy_location(ast.Attribute(value=c.args[0], attr=c.args[1].value, ctx=ast.Load()), c)
                        return c
                out += [S().visit(_cp.deepcopy(b)) for b in node.body]
            nonlocal_n[0] += 1
            return out
    nonlocal_n = [0]
    if tables:
        U().visit(tree)
    if nonlocal_n[0]:
        ast.fix_missing_locations(tree)
    return nonlocal_n[0]


def _dissolve_private_list_subclasses(tree):
    """class _M(list): def m(self, ..): BODY          x = _M()     x.m(a)        ==>     def _M_m(self, ..): BODY     x = []     _M_m(x, a)
    A private subclass of list (dict, set) that adds plain methods and no state of its own - no __init__, no class attributes, no
    dunder methods - is a list with named operations; each added method whose name nothing else in the module defines or stores
    becomes a private function taking the list, so that the helper inliner puts the appends / tests where the rules look for them."""
    n = 0
    builtin = set(dir(list)) | set(dir(dict)) | set(dir(set))
    for cls in [c for c in tree.body if isinstance(c, ast.ClassDef) and c.name.startswith("_") and len(c.bases) == 1 and isinstance(c.bases[0], ast.Name)
                and c.bases[0].id in ("list", "dict", "set") and not c.keywords and not c.decorator_list]:
        members = [m for m in cls.body if not (isinstance(m, ast.Expr) and isinstance(m.value, ast.Constant)) and not isinstance(m, ast.Pass)]
        if not members or not all(isinstance(m, ast.FunctionDef) and not m.decorator_list and m.args.args and not m.name.startswith("__") and m.name not in builtin for m in members):
            continue
        names = {m.name for m in members}
        other_defs = [f for f in ast.walk(tree) if isinstance(f, ast.FunctionDef) and f.name in names and f not in members]
        stored = [x for x in ast.walk(tree) if isinstance(x, ast.Attribute) and x.attr in names and isinstance(x.ctx, (ast.Store, ast.Del))]
        ctor_uses = [x for x in ast.walk(tree) if isinstance(x, ast.Name) and x.id == cls.name]
        ctor_calls = [c for c in ast.walk(tree) if isinstance(c, ast.Call) and isinstance(c.func, ast.Name) and c.func.id == cls.name and not c.args and not c.keywords]
        if other_defs or stored or len(ctor_uses) != len(ctor_calls):
            continue
        # every read of one of the method names must be a direct call on a plain receiver
        reads = [x for x in ast.walk(tree) if isinstance(x, ast.Attribute) and x.attr in names and isinstance(x.ctx, ast.Load)]
        calls = [c for c in ast.walk(tree) if isinstance(c, ast.Call) and isinstance(c.func, ast.Attribute) and c.func.attr in names]
        plain = lambda e: isinstance(e, ast.Name) or (isinstance(e, ast.Attribute) and plain(e.value))
        if len(reads) != len(calls) or not all(plain(c.func.value) for c in calls):
            continue
        idx = tree.body.index(cls)
        new_fns = []
        for m in members:
            m.name = f"_{cls.name.lstrip('_')}_{m.name}"
            new_fns.append(m)
        for c in calls:
            fname = f"_{cls.name.lstrip('_')}_{c.func.attr}"
            c.args = [c.func.value] + list(c.args)
            c.func = ast.copy_location(ast.Name(id=fname, ctx=ast.Load()), c.func)
        empty = {"list": ast.List(elts=[], ctx=ast.Load()), "dict": ast.Dict(keys=[], values=[]), "set": ast.Call(func=ast.Name(id="set", ctx=ast.Load()), args=[], keywords=[])}[cls.bases[0].id]

        class R(ast.NodeTransformer):
            def visit_Call(self, node):
                self.generic_visit(node)
                if isinstance(node.func, ast.Name) and node.func.id == cls.name:
                    import copy as _cp
                    return ast.copy_location(_cp.deepcopy(empty), node)
                return node
        tree.body[idx:idx + 1] = new_fns
        R().visit(tree)
        n += 1
    if n:
        ast.fix_missing_locations(tree)
    return n


def normalise_module(tree: ast.Module):
    info = {"constants": 0, "inlined": {}, "dropped_helpers": []}
    _StripFunctionAnnotations().visit(tree)
    _dissolve_private_list_subclasses(tree)
    _unroll_constant_table_loops(tree)
    _inline_vararg_forwarders(tree)
    _success_flag_finally(tree)
    _LoopPrefixSkip().visit(tree)
    _merge_private_bases(tree)
    _drop_overload_stubs(tree)
    if any(isinstance(st, (ast.Import, ast.ImportFrom)) and any("suppress" in (a.name, a.asname) or a.name == "contextlib" for a in st.names) for st in tree.body):
        _SuppressToTry().visit(tree)
        _absorb_after_suppress(tree)
    _fix_empty_bodies(tree)
    ast.fix_missing_locations(tree)
    from .normalize2 import ForwardTemps, NamedTupleReduce, desugar_module, inline_closures, namedtuples
    from . import normalize2 as _n2
    _n2.extract_private_class_methods(tree)
    nts = namedtuples(tree)
    _n2.NT_NAMES.clear()
    _n2.NT_NAMES.update(nts)
    desugar_module(tree)
    _BytesIOWith().visit(tree)      # after desugar_module: its scratch-row replay knows the `with BytesIO() as row` spelling
    ast.fix_missing_locations(tree)
    EXTRA_PURE.clear()
    EXTRA_PURE.update(nts)
    CLASS_NAMES.clear()
    for st in tree.body:
        if isinstance(st, ast.ClassDef):
            CLASS_NAMES.add(st.name)
        elif isinstance(st, ast.ImportFrom):
            for a in st.names:
                nm = a.asname or a.name
                if nm[:1].isupper() and not nm.isupper():
                    CLASS_NAMES.add(nm)
    bases = {st.name: [ast.unparse(b).split("[")[0] for b in st.bases] for st in tree.body if isinstance(st, ast.ClassDef)}
    info["positional_args"] = positional_args(tree)
    mod, classes = collect_constants(tree)
    info["constants"] = len(mod) + sum(len(v) for v in classes.values())
    if mod or classes:
        ConstSubst(mod, classes, bases).visit(tree)
    flag_and_loops(tree)
    info["closures"] = inline_closures(tree)
    info["private_properties"] = inline_private_properties_anywhere(tree)
    info["private_properties"] += inline_private_properties(tree)
    AppendLoops().visit(tree)
    Canon().visit(tree)
    LoopNorm().visit(tree)
    from .normalize2 import DispatchSplit
    if DispatchSplit(CLASS_NAMES).run(tree):
        ast.fix_missing_locations(tree)
    _inline_helpers(tree, bases, info)
    if protective_enter(tree):
        info["protective_enter"] = 1
        _inline_helpers(tree, bases, info)
    LoopNorm().visit(tree)
    sink_none_tests(tree)
    sink_classifier_tests(tree)
    info["copyprop_rounds"] = normalise_functions(tree)
    ast.fix_missing_locations(tree)
    from .normalize2 import empty_guards
    if empty_guards(tree):
        info["copyprop_rounds"] += normalise_functions(tree)
    # records, single-use temporaries and class dispatch tables: each simplification can enable the others
    from .normalize2 import Desugar
    for _round in range(3):
        again = False
        if nts:
            r = NamedTupleReduce(nts)
            r.visit(tree)
            again |= r.changed
            from .normalize2 import record_locals
            again |= bool(record_locals(tree, nts))
        for fn in [n for n in ast.walk(tree) if isinstance(n, ast.FunctionDef)]:
            again |= ForwardTemps().run(fn)
        ast.fix_missing_locations(tree)
        from .normalize2 import dict_records, projected_snapshots
        if dict_records(tree):
            again = True
            positional_args(tree)
        # snapshots whose projection only now reads as a comprehension (`list(map(_GETTER, X))` with a module-level getter)
        again |= bool(projected_snapshots(tree))
        again |= DispatchSplit(CLASS_NAMES).run(tree)
        # closures that were values of a dispatch table are direct calls after unrolling and propagation
        again |= bool(inline_closures(tree))
        # helper calls that only became direct calls now (partial(f, a)(b) -> f(a, b))
        again |= _inline_helpers(tree, bases, info)
        again |= bool(sink_none_tests(tree))
        again |= bool(sink_classifier_tests(tree))
        if not again:
            break
        ast.fix_missing_locations(tree)
        Desugar().visit(tree)
        LoopNorm().visit(tree)
        normalise_functions(tree)
        ast.fix_missing_locations(tree)
    prune_dead(tree)
    return info


# ------------------------------------------------------------------------------------------- N5 local copy propagation
PURE_CALLS = {"BTSDate.write", "BTSString.write", "len", "any", "all", "isinstance", "range", "enumerate", "min", "max", "sum", "int", "abs", "tuple", "hasattr", "bool", "str", "float",
              "np.dtype", "numpy.dtype", "zip", "sorted", "reversed", "type", "slice", "nullcontext", "contextlib.nullcontext", "frozenset", "set", "list",
              "partial", "functools.partial", "attrgetter", "operator.attrgetter", "itemgetter", "operator.itemgetter", "product", "itertools.product",
              "methodcaller", "operator.methodcaller"}


# read-only AND not raising on well-typed receivers (a call that can raise is not moved: its handler may differ at the use site)
READONLY_METHODS = {"tolist", "astype", "copy", "exists", "is_file", "lower", "upper", "strip", "keys", "values", "items", "get", "find", "count",
                    "startswith", "endswith", "tobytes", "getvalue"}
FRESH_METHODS = {"tolist", "astype", "copy", "keys", "values", "items"}


CLASS_NAMES = set()  # names bound to classes in the module being normalised (own classes and imported capitalised names)
EXTRA_PURE = set()  # names of record constructors (NamedTuple classes) of the module being normalised


def _pure_expr(e):
    """no side effect and no dependence on anything but names and heap reads"""
    for n in ast.walk(e):
        if isinstance(n, ast.Call):
            if isinstance(n.func, ast.Name) and n.func.id in EXTRA_PURE:
                continue
            if isinstance(n.func, ast.Attribute) and n.func.attr in READONLY_METHODS and not isinstance(n.func.value, ast.Call):
                continue
            if ast.unparse(n.func) not in PURE_CALLS:
                return False
        elif isinstance(n, (ast.Await, ast.Yield, ast.YieldFrom, ast.NamedExpr, ast.Lambda)):
            return False
    return True


def _paths_read(e):
    """access paths (dotted text of Name/Attribute chains, subscripts cut) read by the expression, and its free names"""
    paths, names = set(), set()
    bound = set()
    for n in ast.walk(e):
        if isinstance(n, ast.comprehension):
            for t in ast.walk(n.target):
                if isinstance(t, ast.Name):
                    bound.add(t.id)
    for n in ast.walk(e):
        if isinstance(n, ast.Name) and n.id not in bound:
            names.add(n.id)
        if isinstance(n, ast.Attribute):
            paths.add(ast.unparse(n))
        if isinstance(n, ast.Subscript):
            paths.add(ast.unparse(n.value))
    return paths, names


def _root(n):
    while isinstance(n, (ast.Attribute, ast.Subscript, ast.Call)):
        n = n.func if isinstance(n, ast.Call) else n.value
    return n.id if isinstance(n, ast.Name) else None


def _linear(e):
    """expr -> ({text of atom: coefficient}, constant) for +/- combinations of atoms and integer literals, else None"""
    if isinstance(e, ast.Constant) and isinstance(e.value, int) and not isinstance(e.value, bool):
        return {}, e.value
    if isinstance(e, ast.BinOp) and isinstance(e.op, (ast.Add, ast.Sub)):
        a, b = _linear(e.left), _linear(e.right)
        if a is None or b is None:
            return None
        sign = 1 if isinstance(e.op, ast.Add) else -1
        co = dict(a[0])
        for k, v in b[0].items():
            co[k] = co.get(k, 0) + sign * v
        return {k: v for k, v in co.items() if v}, a[1] + sign * b[1]
    if isinstance(e, (ast.Name, ast.Attribute)):
        return {ast.unparse(e): 1}, 0
    return None


def _store_below_slice(store: ast.Subscript, value):
    """`L[i] = ..` cannot change what `L[i + c:]` (c > 0, no upper bound) denotes: same elements, in the same order"""
    if not (isinstance(value, ast.Subscript) and isinstance(value.slice, ast.Slice) and value.slice.upper is None and value.slice.step is None
            and value.slice.lower is not None and ast.unparse(value.value) == ast.unparse(store.value) and not isinstance(store.slice, ast.Slice)):
        return False
    lo, idx = _linear(value.slice.lower), _linear(store.slice)
    if lo is None or idx is None or lo[0] != idx[0]:
        return False
    return lo[1] - idx[1] > 0


def _is_ref_path(e):
    """a plain reference: name or attribute chain (what it denotes changes only by rebinding, not by mutating the object)"""
    while isinstance(e, ast.Attribute):
        e = e.value
    return isinstance(e, ast.Name)


def _kills(st, paths, names, attrs, value=None, alias=None):
    """may executing `st` (its own expressions and nested statements) change the value of an expression reading paths/names?
    alias: the local name bound to a plain reference `value` - calling methods on that object does not rebind the reference"""
    for n in ast.walk(st):
        if value is not None and isinstance(n, ast.Subscript) and isinstance(n.ctx, ast.Store) and _store_below_slice(n, value):
            continue
        if isinstance(n, ast.Name) and isinstance(n.ctx, (ast.Store, ast.Del)) and n.id in names:
            return True
        if isinstance(n, ast.Attribute) and isinstance(n.ctx, (ast.Store, ast.Del)):
            if n.attr in attrs:
                return True
        if isinstance(n, ast.Subscript) and isinstance(n.ctx, (ast.Store, ast.Del)):
            p = ast.unparse(n.value)
            if alias is not None and value is not None and _is_ref_path(value) and (p == ast.unparse(value) or p == alias or p.startswith(ast.unparse(value) + ".") or p.startswith(ast.unparse(value) + "[")):
                continue  # an item store changes the object the reference denotes, not the reference
            if any(q == p or q.startswith(p + ".") or p.startswith(q + ".") for q in paths) or _root(n.value) in names and not paths:
                return True
        if isinstance(n, ast.Call) and ast.unparse(n.func) not in PURE_CALLS:
            f = n.func
            if isinstance(f, ast.Attribute):
                recv = ast.unparse(f.value)
                if f.attr in ("seek", "write", "read", "flush", "tell", "truncate", "getvalue", "bread", "bwrite", "skip", "bpad", "pad", "_write", "nBytes",
                              "decode", "encode", "index", "find", "startswith", "endswith", "split", "partition", "tolist", "astype", "tobytes", "copy",
                              "items", "keys", "values", "get", "stat", "exists", "is_file", "format", "join", "count", "timestamp", "lower", "upper", "strip"):
                    # stream / codec traffic does not touch the values the rules look at (the entry objects are updated by
                    # explicit attribute stores, which are caught above)
                    continue
                if alias is not None and value is not None and _is_ref_path(value) and recv in (alias, ast.unparse(value)):
                    continue  # the object is mutated, the reference still denotes it
                if any(q == recv or q.startswith(recv + ".") or q.startswith(recv + "[") for q in paths | names):
                    return True
                if recv in ("self", "cls") and any(q.startswith("self.") for q in paths):
                    return True
            # a call receiving one of the read objects may mutate it
            for a in list(n.args) + [k.value for k in n.keywords]:
                r = _root(a) if isinstance(a, (ast.Name, ast.Attribute, ast.Subscript)) else None
                if r in names and paths and any(q.split(".")[0] == r for q in paths) and not isinstance(f, ast.Attribute):
                    if alias is not None and value is not None and _is_ref_path(value):
                        # `alias = obj.attr` is a plain reference: the callee can change which object it denotes only by rebinding the
                        # attribute, for which it needs the owner (a proper prefix of the path), not something read from below it
                        at = ast.unparse(a)
                        vt = ast.unparse(value)
                        if not (vt == at or vt.startswith(at + ".")):
                            continue
                    return True
    return False


def _in_pure_consumer_only(e):
    """container displays / comprehensions occur only as arguments of len/any/all/sum/min/max/next/sorted/tuple (consumed at
    once: no object identity escapes), so evaluating the expression at each use is indistinguishable"""
    consumers = {"len", "any", "all", "sum", "min", "max", "next", "sorted", "tuple"}

    def ok(n, consumed):
        if isinstance(n, (ast.List, ast.Dict, ast.Set, ast.ListComp, ast.DictComp, ast.SetComp, ast.GeneratorExp)) and not consumed:
            return False
        if isinstance(n, ast.Call) and ast.unparse(n.func) in consumers:
            return all(ok(a, True) for a in n.args) and all(ok(k.value, False) for k in n.keywords)
        if isinstance(n, (ast.List, ast.ListComp, ast.GeneratorExp, ast.SetComp, ast.Set)) and consumed:
            return all(ok(c, False) for c in ast.iter_child_nodes(n))
        return all(ok(c, False) for c in ast.iter_child_nodes(n))

    return ok(e, False)


def _dispatch_chain(e):
    """`A._build if c1 else B._build if c2 else None`: a selection among classes / their methods - left as a binding for
    DispatchSplit, which turns it into one branch per class (propagating it would bury the selection in every use)"""
    if not isinstance(e, ast.IfExp):
        return False
    leaves = []
    while isinstance(e, ast.IfExp):
        leaves.append(e.body)
        e = e.orelse
    leaves.append(e)

    def cls_ref(x):
        return (isinstance(x, ast.Name) and x.id in CLASS_NAMES) or (isinstance(x, ast.Attribute) and isinstance(x.value, ast.Name) and x.value.id in CLASS_NAMES
                                                                      and not _enum_member(x))
    return any(cls_ref(x) for x in leaves) and all(cls_ref(x) or (isinstance(x, ast.Constant) and x.value is None) for x in leaves)


class BranchLocalRename:
    """A name assigned in several sibling blocks (one assignment per block, every read of it inside the block that assigned
    it, after the assignment) is a different variable in each block: give each its own name so that values can be followed."""

    def run(self, fn):
        stores = {}
        loads = {}
        for n in ast.walk(fn):
            if isinstance(n, ast.Name):
                d = stores if isinstance(n.ctx, (ast.Store, ast.Del)) else loads
                d[n.id] = d.get(n.id, 0) + 1
        params = {a.arg for a in fn.args.posonlyargs + fn.args.args + fn.args.kwonlyargs}
        cands = {x for x, k in stores.items() if k > 1 and x not in params}
        if not cands:
            return False
        blocks = []
        for n in ast.walk(fn):
            for fld in ("body", "orelse", "finalbody"):
                sub = getattr(n, fld, None)
                if isinstance(sub, list) and sub and isinstance(sub[0], ast.stmt) and n is not fn:
                    blocks.append(sub)
        changed = False
        for x in sorted(cands):
            sites = []  # (block, index)
            okk = True
            for b in blocks:
                idx = [i for i, st in enumerate(b) if isinstance(st, ast.Assign) and len(st.targets) == 1 and isinstance(st.targets[0], ast.Name) and st.targets[0].id == x]
                inner_stores = sum(1 for st in b for m in ast.walk(st) if isinstance(m, ast.Name) and m.id == x and isinstance(m.ctx, (ast.Store, ast.Del)))
                if not idx:
                    continue
                if len(idx) != 1 or inner_stores != 1:
                    okk = False
                    break
                i = idx[0]
                if any(isinstance(m, ast.Name) and m.id == x for st in b[:i] for m in ast.walk(st)) or any(isinstance(m, ast.Name) and m.id == x and isinstance(m.ctx, ast.Load) for m in ast.walk(b[i].value)):
                    okk = False
                    break
                sites.append((b, i))
            if not okk or len(sites) != stores[x]:
                continue
            n_loads = sum(1 for b, i in sites for st in b[i + 1:] for m in ast.walk(st) if isinstance(m, ast.Name) and m.id == x and isinstance(m.ctx, ast.Load))
            if n_loads != loads.get(x, 0):
                continue
            # nested sites (one block inside another) would be counted twice above: require disjoint blocks
            ids = [id(b) for b, _ in sites]
            nested = False
            for b, i in sites:
                inside = {id(sub) for st in b for m in ast.walk(st) for fld in ("body", "orelse", "finalbody") for sub in [getattr(m, fld, None)] if isinstance(sub, list)}
                if any(j in inside for j in ids if j != id(b)):
                    nested = True
            if nested:
                continue
            for b, i in sites:
                new = f"{x}__{next(_counter)}"
                b[i].targets[0] = ast.copy_location(ast.Name(id=new, ctx=ast.Store()), b[i].targets[0])
                for st in b[i + 1:]:
                    for m in ast.walk(st):
                        if isinstance(m, ast.Name) and m.id == x:
                            m.id = new
                changed = True
        return changed


class SSARename:
    """x = f(x) at the top level of a function body (x a parameter or an earlier top-level local, never stored anywhere else):
    later uses read a new single-assignment name, so that the value can be followed."""

    def run(self, fn):
        if any(isinstance(n, (ast.Lambda, ast.FunctionDef, ast.Global, ast.Nonlocal)) and n is not fn for n in ast.walk(fn)):
            return False
        params = {a.arg for a in fn.args.posonlyargs + fn.args.args + fn.args.kwonlyargs}
        top = {}
        for st in fn.body:
            if isinstance(st, ast.Assign) and len(st.targets) == 1 and isinstance(st.targets[0], ast.Name):
                top[st.targets[0].id] = top.get(st.targets[0].id, 0) + 1
        total = {}
        for n in ast.walk(fn):
            if isinstance(n, ast.Name) and isinstance(n.ctx, (ast.Store, ast.Del)):
                total[n.id] = total.get(n.id, 0) + 1
            if isinstance(n, ast.ExceptHandler) and n.name:
                total[n.name] = total.get(n.name, 0) + 1
        cands = {x for x, k in top.items() if total.get(x) == k and (k > 1 or x in params) and x not in ("self", "cls")}
        if not cands:
            return False
        version = {}
        changed = False

        class R(ast.NodeTransformer):
            def visit_Name(self, n):
                if isinstance(n.ctx, ast.Load) and n.id in version:
                    return ast.copy_location(ast.Name(id=version[n.id], ctx=ast.Load()), n)
                return n

        for st in fn.body:
            if isinstance(st, ast.Assign) and len(st.targets) == 1 and isinstance(st.targets[0], ast.Name) and st.targets[0].id in cands:
                x = st.targets[0].id
                st.value = R().visit(st.value)
                first_local_def = x not in params and x not in version and not getattr(self, "_seen_" + x, False)
                if first_local_def:
                    setattr(self, "_seen_" + x, True)
                    continue
                new = f"{x}__{next(_counter)}"
                version[x] = new
                st.targets[0] = ast.copy_location(ast.Name(id=new, ctx=ast.Store()), st.targets[0])
                changed = True
            else:
                R().visit(st)
        return changed


class CopyProp:
    def run(self, fn):
        stores = {}
        for n in ast.walk(fn):
            if isinstance(n, ast.Name) and isinstance(n.ctx, (ast.Store, ast.Del)):
                stores[n.id] = stores.get(n.id, 0) + 1
            if isinstance(n, (ast.Global, ast.Nonlocal)):
                return False
        params = {a.arg for a in fn.args.posonlyargs + fn.args.args + fn.args.kwonlyargs}
        self.loads = {}
        for n in ast.walk(fn):
            if isinstance(n, ast.Name) and isinstance(n.ctx, ast.Load):
                self.loads[n.id] = self.loads.get(n.id, 0) + 1
        # loads that only iterate / measure the value (no object identity escapes, nothing can mutate it)
        consumers = {"len", "sum", "any", "all", "enumerate", "zip", "sorted", "tuple", "min", "max", "iter", "reversed"}
        consumed = {}
        for n in ast.walk(fn):
            its = []
            if isinstance(n, ast.For):
                its.append(n.iter)
            if isinstance(n, ast.comprehension):
                its.append(n.iter)
            if isinstance(n, ast.Call) and isinstance(n.func, ast.Name) and n.func.id in consumers:
                its += list(n.args)
            if isinstance(n, ast.Assign) and len(n.targets) == 1 and isinstance(n.targets[0], (ast.Tuple, ast.List)) and isinstance(n.value, ast.Name):
                its.append(n.value)      # a, b, c = X  iterates X once
            for it in its:
                if isinstance(it, ast.Name):
                    consumed[it.id] = consumed.get(it.id, 0) + 1
        self.consumed_only = {x for x, k in consumed.items() if k == self.loads.get(x)}
        changed = False
        changed |= self.block(fn.body, stores, params, in_loop=False)
        return changed

    def block(self, stmts, stores, params, in_loop):
        changed = False
        i = 0
        while i < len(stmts):
            st = stmts[i]
            if isinstance(st, ast.Assign) and len(st.targets) == 1 and isinstance(st.targets[0], ast.Name) \
                    and stores.get(st.targets[0].id) == 1 and st.targets[0].id not in params \
                    and (_pure_expr(st.value) or (isinstance(st.value, ast.GeneratorExp) and self.loads.get(st.targets[0].id) == 1 and _pure_expr(st.value.generators[0].iter)
                                                  and self._sole_use_is_iteration(stmts[i + 1:], st.targets[0].id))) \
                    and (not any(isinstance(x, (ast.List, ast.Dict, ast.Set, ast.ListComp, ast.DictComp, ast.SetComp, ast.GeneratorExp))
                                 or (isinstance(x, ast.Call) and isinstance(x.func, ast.Attribute) and x.func.attr in FRESH_METHODS) for x in ast.walk(st.value))
                         or self.loads.get(st.targets[0].id) == 1 or _in_pure_consumer_only(st.value) or st.targets[0].id in self.consumed_only) \
                    and not _dispatch_chain(st.value):
                name = st.targets[0].id
                paths, names = _paths_read(st.value)
                # the names read must themselves be stable from here on
                if all(stores.get(x, 0) <= 1 or x in ("self", "cls") for x in names) or True:
                    attrs = {p.rsplit(".", 1)[1] for p in paths if "." in p}
                    done, left = self.propagate(stmts[i + 1:], name, st.value, paths, names, attrs, stores)
                    if done and not left and not in_loop:
                        del stmts[i]
                        changed = True
                        continue
                    if done:
                        changed = True
            for fld in ("body", "orelse", "finalbody"):
                sub = getattr(st, fld, None)
                if isinstance(sub, list) and sub and isinstance(sub[0], ast.stmt) and not isinstance(st, (ast.FunctionDef, ast.ClassDef)):
                    changed |= self.block(sub, stores, params, in_loop or isinstance(st, (ast.For, ast.While)))
            if isinstance(st, ast.Try):
                for hd in st.handlers:
                    changed |= self.block(hd.body, stores, params, in_loop)
            i += 1
        return changed

    @staticmethod
    def _sole_use_is_iteration(rest, name):
        """the one use of a lazily evaluated generator is the iterable of the NEXT statement (a for loop, possibly through enumerate):
        its elements are produced while that loop runs, exactly as when the generator expression is written there"""
        if not rest or not isinstance(rest[0], ast.For):
            return False
        it = rest[0].iter
        if isinstance(it, ast.Call) and ast.unparse(it.func) == "enumerate" and len(it.args) == 1 and not it.keywords:
            it = it.args[0]
        return isinstance(it, ast.Name) and it.id == name

    def propagate(self, rest, name, value, paths, names, attrs, stores):
        """substitute `name` by `value` in the statements after the definition, stopping at the first statement that may change
        the value. Returns (number substituted, number of uses left)."""
        done = 0
        left = 0
        killed = False

        class S(ast.NodeTransformer):
            def visit_Name(self, n):
                nonlocal done
                if n.id == name and isinstance(n.ctx, ast.Load):
                    done += 1
                    return ast.copy_location(copy.deepcopy(value), n)
                return n

        def count(node):
            return sum(1 for n in ast.walk(node) if isinstance(n, ast.Name) and n.id == name and isinstance(n.ctx, ast.Load))

        for st in rest:
            if killed:
                left += count(st)
                continue
            is_loop = isinstance(st, (ast.For, ast.While))
            if is_loop or isinstance(st, (ast.If, ast.Try, ast.With)):
                # compound statement: substitute only if nothing inside can change the value (a loop re-executes its body)
                if _kills(st, paths, names | {name}, attrs, value, alias=name) and not self._self_store_only(st, name, value, paths, attrs):
                    # the header expression of a non-loop compound statement is evaluated before its body
                    if isinstance(st, ast.If):
                        st.test = S().visit(st.test)
                    elif isinstance(st, ast.For):
                        st.iter = S().visit(st.iter)
                    elif isinstance(st, ast.With) and len(st.items) == 1:
                        st.items[0].context_expr = S().visit(st.items[0].context_expr)
                    left += count(st)
                    killed = True
                    continue
                S().visit(st)
                continue
            # simple statement: its reads happen before its own store
            S().visit(st)
            if _kills(st, paths, names | {name}, attrs, value, alias=name):
                killed = True
        return done, left

    @staticmethod
    def _self_store_only(st, name, value, paths, attrs):
        """A loop whose only conflicting writes are `<loop-bound entry>.<attr> = <name>`-style stores through a variable bound
        inside that loop (the per-iteration element), never through a path the value reads: the hoisted value keeps the
        meaning the rules give to the un-hoisted expression (distinct names are taken not to alias)."""
        if not isinstance(st, ast.For):
            return False
        bound = {n.id for n in ast.walk(st.target) if isinstance(n, ast.Name)}
        sources = [st.iter]
        for s in st.body:
            if isinstance(s, ast.Assign) and len(s.targets) == 1 and isinstance(s.targets[0], ast.Name):
                bound.add(s.targets[0].id)
                sources.append(s.value)
        # the per-iteration element must not come from a container the hoisted value reads (it would alias it)
        vroots = {q.split("[")[0] for q in paths}
        for src in sources:
            sp, _ = _paths_read(src)
            for q in sp:
                if any(v == q or v.startswith(q + ".") or q.startswith(v + ".") for v in vroots):
                    return False
        for n in ast.walk(st):
            if isinstance(n, ast.Attribute) and isinstance(n.ctx, (ast.Store, ast.Del)) and n.attr in attrs:
                if not (isinstance(n.value, ast.Name) and n.value.id in bound and ast.unparse(n) not in paths):
                    return False
            if isinstance(n, ast.Subscript) and isinstance(n.ctx, (ast.Store, ast.Del)):
                return False
            if isinstance(n, ast.Name) and isinstance(n.ctx, (ast.Store, ast.Del)) and n.id == name:
                return False
        tmp = ast.For(target=st.target, iter=st.iter, body=[ast.Pass()], orelse=[])
        probe = copy.deepcopy(st)
        for n in ast.walk(probe):
            if isinstance(n, ast.Attribute) and isinstance(n.ctx, ast.Store) and n.attr in attrs:
                n.attr = "__ignored__"
        paths2, names2 = _paths_read(value)
        return not _kills(probe, paths2, names2 | {name}, attrs)


# ------------------------------------------------------------------------------------------- N6 canonical statement forms
class Canon(ast.NodeTransformer):
    def visit_Attribute(self, node):
        self.generic_visit(node)
        # slice(a, b[, c]).start / .stop / .step   ==>   a / b / c       (the fields of a slice display)
        if isinstance(node.ctx, ast.Load) and node.attr in ("start", "stop", "step") and isinstance(node.value, ast.Call) and isinstance(node.value.func, ast.Name) \
                and node.value.func.id == "slice" and not node.value.keywords and 1 <= len(node.value.args) <= 3 and not any(isinstance(a, ast.Starred) for a in node.value.args):
            a = node.value.args
            parts = {"start": a[0] if len(a) >= 2 else ast.Constant(value=None), "stop": a[1] if len(a) >= 2 else a[0], "step": a[2] if len(a) == 3 else ast.Constant(value=None)}
            if all(_pure_expr(x) for x in a):
                return ast.copy_location(parts[node.attr], node)
        return node

    def visit_Subscript_slice_object(self, node):
        return node

    def visit_If(self, node):
        self.generic_visit(node)
        if isinstance(node.test, ast.Constant) and isinstance(node.test.value, bool):
            return (node.body if node.test.value else node.orelse) or [ast.copy_location(ast.Pass(), node)]
        # if T: pass  else: S   ==>   if not T: S        (an inlined guard helper written with an early return)
        if node.orelse and all(isinstance(b, ast.Pass) for b in node.body):
            t_ = node.test.operand if isinstance(node.test, ast.UnaryOp) and isinstance(node.test.op, ast.Not) else ast.UnaryOp(op=ast.Not(), operand=node.test)
            node = ast.fix_missing_locations(ast.copy_location(ast.If(test=t_, body=node.orelse, orelse=[]), node))
        # if T: x = E   ==>   x = E if T else x      (not while E still calls a private helper: that is inlined as statements first)
        if not node.orelse and len(node.body) == 1 and isinstance(node.body[0], ast.Assign) and len(node.body[0].targets) == 1 \
                and isinstance(node.body[0].targets[0], ast.Name) \
                and not any(isinstance(c, ast.Call) and ((isinstance(c.func, ast.Attribute) and c.func.attr.startswith("_") and not c.func.attr.startswith("__"))
                                                         or (isinstance(c.func, ast.Name) and c.func.id.startswith("_") and not c.func.id.startswith("__")))
                            for c in ast.walk(node.body[0].value)):
            a = node.body[0]
            val = ast.IfExp(test=node.test, body=a.value, orelse=ast.Name(id=a.targets[0].id, ctx=ast.Load()))
            return ast.copy_location(ast.Assign(targets=a.targets, value=val, lineno=node.lineno), node)
        # if T: r = A  else: r = B   ==>   r = A if T else B      (r the return-value temporary of an inlined helper: `return A` / `return B`)
        if len(node.body) == 1 and len(node.orelse) == 1 and all(isinstance(b, ast.Assign) and len(b.targets) == 1 and isinstance(b.targets[0], ast.Name) for b in (node.body[0], node.orelse[0])) \
                and node.body[0].targets[0].id == node.orelse[0].targets[0].id and node.body[0].targets[0].id.startswith("_inl") and node.body[0].targets[0].id.endswith("_ret"):
            val = ast.IfExp(test=node.test, body=node.body[0].value, orelse=node.orelse[0].value)
            return ast.copy_location(ast.Assign(targets=node.body[0].targets, value=val, lineno=node.lineno), node)
        # if T: x.a = A  else: x.a = B   ==>   x.a = A if T else B        (x a plain name: the same store either way)
        if len(node.body) == 1 and len(node.orelse) == 1 and all(isinstance(b, ast.Assign) and len(b.targets) == 1 and isinstance(b.targets[0], ast.Attribute)
                                                                 and isinstance(b.targets[0].value, ast.Name) for b in (node.body[0], node.orelse[0])) \
                and ast.unparse(node.body[0].targets[0]) == ast.unparse(node.orelse[0].targets[0]) and node.body[0].targets[0].value.id not in ("self", "cls"):
            val = ast.IfExp(test=node.test, body=node.body[0].value, orelse=node.orelse[0].value)
            return ast.copy_location(ast.Assign(targets=node.body[0].targets, value=val, lineno=node.lineno), node)
        # if T: f = K1; g = K2  else: f = K3; g = K4   ==>   f = K1 if T else K3; g = K2 if T else K4
        # (a table of flags: the same local names on both arms, each given a literal or a conditional over literals)
        def _flagval(v):
            return isinstance(v, ast.Constant) or (isinstance(v, ast.IfExp) and _pure_expr(v.test) and _flagval(v.body) and _flagval(v.orelse)) \
                or (isinstance(v, (ast.BoolOp, ast.UnaryOp, ast.Compare)) and _pure_expr(v))
        if len(node.body) == len(node.orelse) >= 2 and _pure_expr(node.test) \
                and all(isinstance(b, ast.Assign) and len(b.targets) == 1 and isinstance(b.targets[0], ast.Name) and _flagval(b.value) for b in node.body + node.orelse) \
                and [b.targets[0].id for b in node.body] == [b.targets[0].id for b in node.orelse] and len({b.targets[0].id for b in node.body}) == len(node.body):
            names = {b.targets[0].id for b in node.body}
            if not any(isinstance(x, ast.Name) and x.id in names for b in node.body + node.orelse for x in ast.walk(b.value)) \
                    and not any(isinstance(x, ast.Name) and x.id in names for x in ast.walk(node.test)):
                outl = []
                for a, b in zip(node.body, node.orelse):
                    val = self.visit(ast.IfExp(test=copy.deepcopy(node.test), body=a.value, orelse=b.value))
                    outl.append(ast.copy_location(ast.Assign(targets=a.targets, value=val, lineno=node.lineno), node))
                return outl
        # if A: (if B: X)   ==>   if A and B: X
        if not node.orelse and len(node.body) == 1 and isinstance(node.body[0], ast.If) and not node.body[0].orelse:
            inner = node.body[0]
            vals = []
            for t in (node.test, inner.test):
                vals += t.values if isinstance(t, ast.BoolOp) and isinstance(t.op, ast.And) else [t]
            return ast.copy_location(ast.If(test=ast.BoolOp(op=ast.And(), values=vals), body=inner.body, orelse=[]), node)
        return node

    def visit_Expr(self, node):
        self.generic_visit(node)
        # setattr(x, "name", v)  ==>  x.name = v
        v = node.value
        if isinstance(v, ast.Call) and isinstance(v.func, ast.Name) and v.func.id == "setattr" and len(v.args) == 3 and not v.keywords \
                and isinstance(v.args[1], ast.Constant) and isinstance(v.args[1].value, str) and v.args[1].value.isidentifier():
            tgt = ast.Attribute(value=v.args[0], attr=v.args[1].value, ctx=ast.Store())
            return ast.copy_location(ast.Assign(targets=[tgt], value=v.args[2], lineno=node.lineno), node)
        # A if c else B   as a statement   ==>   if c: A else: B
        if isinstance(node.value, ast.IfExp):
            ie = node.value
            mk = lambda e: ast.copy_location(ast.Expr(value=e), node)
            return ast.copy_location(ast.If(test=ie.test, body=[mk(ie.body)], orelse=[mk(ie.orelse)]), node)
        return node

    def visit_AugAssign(self, node):
        self.generic_visit(node)
        # self.xs += [e]   ==>   self.xs.append(e)        (in-place list extension by one element)
        if isinstance(node.op, ast.Add) and isinstance(node.target, ast.Attribute) and isinstance(node.value, ast.List) and len(node.value.elts) == 1 \
                and not isinstance(node.value.elts[0], ast.Starred):
            tgt = copy.deepcopy(node.target)
            tgt.ctx = ast.Load()
            call = ast.Call(func=ast.Attribute(value=tgt, attr="append", ctx=ast.Load()), args=[node.value.elts[0]], keywords=[])
            return ast.copy_location(ast.Expr(value=call), node)
        return node

    def visit_Raise(self, node):
        self.generic_visit(node)
        # raise (A if c else B)   ==>   if c: raise A  else: raise B
        if isinstance(node.exc, ast.IfExp) and node.cause is None and _pure_expr(node.exc.test):
            a = ast.copy_location(ast.Raise(exc=node.exc.body, cause=None), node)
            b = ast.copy_location(ast.Raise(exc=node.exc.orelse, cause=None), node)
            return ast.copy_location(ast.If(test=node.exc.test, body=[a], orelse=[b]), node)
        return node

    def visit_FunctionDef(self, node):
        self.generic_visit(node)
        for n in ast.walk(node):
            for fld in ("body", "orelse", "finalbody"):
                sub = getattr(n, fld, None)
                if isinstance(sub, list):
                    for k, st in enumerate(sub):
                        if isinstance(st, ast.AnnAssign) and isinstance(st.target, ast.Name) and st.value is not None and st.simple:
                            sub[k] = ast.copy_location(ast.Assign(targets=[st.target], value=st.value, lineno=st.lineno), st)
        return node

    def visit_Assign(self, node):
        self.generic_visit(node)
        # a = b = E   ==>   b = E; a = b      (one plain name among the targets)
        if len(node.targets) > 1:
            names = [t for t in node.targets if isinstance(t, ast.Name)]
            if len(names) == 1 and names[0].id not in {x.id for t in node.targets if t is not names[0] for x in ast.walk(t) if isinstance(x, ast.Name)}:
                first = ast.copy_location(ast.Assign(targets=[names[0]], value=node.value, lineno=node.lineno), node)
                rest = [ast.copy_location(ast.Assign(targets=[t], value=ast.Name(id=names[0].id, ctx=ast.Load()), lineno=node.lineno), node) for t in node.targets if t is not names[0]]
                return [first] + rest
        # *a, b = (x, y, z)   ==>   a = [x, y]; b = z        (literal right-hand side; a starred target receives a list)
        if len(node.targets) == 1 and isinstance(node.targets[0], (ast.Tuple, ast.List)) and isinstance(node.value, (ast.Tuple, ast.List)) \
                and sum(isinstance(t, ast.Starred) for t in node.targets[0].elts) == 1 and not any(isinstance(e, ast.Starred) for e in node.value.elts) \
                and all(isinstance(t, ast.Name) or (isinstance(t, ast.Starred) and isinstance(t.value, ast.Name)) for t in node.targets[0].elts) \
                and all(isinstance(e, (ast.Constant, ast.Name)) or _pure_expr(e) for e in node.value.elts):
            ts, vs = node.targets[0].elts, node.value.elts
            si = next(i for i, t in enumerate(ts) if isinstance(t, ast.Starred))
            after = len(ts) - si - 1
            if len(vs) >= len(ts) - 1:
                out = []
                for i, t in enumerate(ts[:si]):
                    out.append(ast.copy_location(ast.Assign(targets=[t], value=vs[i], lineno=node.lineno), node))
                mid = vs[si:len(vs) - after]
                out.append(ast.copy_location(ast.Assign(targets=[ts[si].value], value=ast.Tuple(elts=list(mid), ctx=ast.Load()), lineno=node.lineno), node))
                for j, t in enumerate(ts[si + 1:]):
                    out.append(ast.copy_location(ast.Assign(targets=[t], value=vs[len(vs) - after + j], lineno=node.lineno), node))
                return out
        # a = b = K   ==>   a = K; b = K      (K a literal)
        if len(node.targets) > 1 and all(isinstance(t, ast.Name) for t in node.targets) and isinstance(node.value, ast.Constant):
            return [ast.copy_location(ast.Assign(targets=[t], value=copy.deepcopy(node.value), lineno=node.lineno), node) for t in node.targets]
        # (x,) = v   ==>   x = v[0]
        if len(node.targets) == 1 and isinstance(node.targets[0], (ast.Tuple, ast.List)) and len(node.targets[0].elts) == 1 \
                and isinstance(node.targets[0].elts[0], ast.Name) and not isinstance(node.value, (ast.Tuple, ast.List)):
            val = ast.Subscript(value=node.value, slice=ast.Constant(value=0), ctx=ast.Load())
            return ast.copy_location(ast.Assign(targets=[node.targets[0].elts[0]], value=val, lineno=node.lineno), node)
        # a, b = x, y  ==>  a = x; b = y   (no target is read by a later value)
        if len(node.targets) == 1 and isinstance(node.targets[0], ast.Tuple) and isinstance(node.value, ast.Tuple) \
                and len(node.targets[0].elts) == len(node.value.elts) and all(isinstance(t, ast.Name) for t in node.targets[0].elts):
            names = [t.id for t in node.targets[0].elts]
            reads = {x.id for v in node.value.elts for x in ast.walk(v) if isinstance(x, ast.Name)}
            if not (set(names) & reads):
                return [ast.copy_location(ast.Assign(targets=[t], value=v, lineno=node.lineno), node) for t, v in zip(node.targets[0].elts, node.value.elts)]
        # _, x = next(((A, B) for ..), (DA, DB))   ==>   x = next((B for ..), DB)        (`_` is the conventional discard)
        if len(node.targets) == 1 and isinstance(node.targets[0], ast.Tuple) and all(isinstance(t, ast.Name) for t in node.targets[0].elts) \
                and isinstance(node.value, ast.Call) and ast.unparse(node.value.func) == "next" and len(node.value.args) in (1, 2) and not node.value.keywords \
                and isinstance(node.value.args[0], ast.GeneratorExp) and isinstance(node.value.args[0].elt, ast.Tuple) \
                and (len(node.value.args) == 1 or (isinstance(node.value.args[1], ast.Tuple) and len(node.value.args[1].elts) == len(node.targets[0].elts))) \
                and len(node.value.args[0].elt.elts) == len(node.targets[0].elts):
            keep = [k for k, t in enumerate(node.targets[0].elts) if t.id != "_"]
            if len(keep) == 1:
                k = keep[0]
                gen = ast.GeneratorExp(elt=node.value.args[0].elt.elts[k], generators=node.value.args[0].generators)
                call = ast.Call(func=node.value.func, args=[gen] + ([node.value.args[1].elts[k]] if len(node.value.args) == 2 else []), keywords=[])
                return ast.copy_location(ast.Assign(targets=[node.targets[0].elts[k]], value=self.visit(call), lineno=node.lineno), node)
        # a.x, b = E1, E2  ==>  a.x = E1; b = E2     (every later value is pure and reads neither an earlier target nor its object)
        if len(node.targets) == 1 and isinstance(node.targets[0], ast.Tuple) and isinstance(node.value, ast.Tuple) \
                and len(node.targets[0].elts) == len(node.value.elts) \
                and all(isinstance(t, ast.Name) or (isinstance(t, ast.Attribute) and isinstance(t.value, ast.Name)) for t in node.targets[0].elts) \
                and any(isinstance(t, ast.Attribute) for t in node.targets[0].elts):
            okk = True
            for j, v in enumerate(node.value.elts):
                if j == 0:
                    continue
                earlier = {(t.id if isinstance(t, ast.Name) else t.value.id) for t in node.targets[0].elts[:j]}
                if not _pure_expr(v) or any(isinstance(x, ast.Name) and x.id in earlier for x in ast.walk(v)):
                    okk = False
            if okk:
                return [ast.copy_location(ast.Assign(targets=[t], value=v, lineno=node.lineno), node) for t, v in zip(node.targets[0].elts, node.value.elts)]
        if len(node.targets) == 1 and isinstance(node.value, ast.BinOp) and isinstance(node.targets[0], (ast.Name, ast.Attribute, ast.Subscript)):
            t = ast.unparse(node.targets[0])
            if ast.unparse(node.value.left) == t and isinstance(node.value.op, (ast.Add, ast.Sub, ast.Mult)):
                tgt = copy.deepcopy(node.targets[0])
                return ast.copy_location(ast.AugAssign(target=tgt, op=node.value.op, value=node.value.right), node)
        return node

    @staticmethod
    def _opt_elem(t):
        """(P, E, is_not_none) when t is `(P if E else None) is [not] None` with P an element of a sequence"""
        if isinstance(t, ast.Compare) and len(t.ops) == 1 and isinstance(t.ops[0], (ast.Is, ast.IsNot)) and isinstance(t.comparators[0], ast.Constant) \
                and t.comparators[0].value is None and isinstance(t.left, ast.IfExp):
            ie = t.left
            if isinstance(ie.orelse, ast.Constant) and ie.orelse.value is None and isinstance(ie.body, ast.Subscript):
                return ie, ie.body, ie.test, isinstance(t.ops[0], ast.IsNot)
        return None

    def visit_IfExp(self, node):
        self.generic_visit(node)
        if isinstance(node.test, ast.Constant) and isinstance(node.test.value, bool):
            return node.body if node.test.value else node.orelse
        # B if T else T  ==>  T and B ;   T if T else B  ==>  T or B      (T free of calls with effects)
        if _pure_expr(node.test) or all(isinstance(x.func, ast.Attribute) and ast.unparse(x.func) in ("np.array_equal", "np.allclose", "numpy.array_equal", "numpy.allclose")
                                         for x in ast.walk(node.test) if isinstance(x, ast.Call) and ast.unparse(x.func) not in PURE_CALLS):
            tt = ast.unparse(node.test)
            if ast.unparse(node.orelse) == tt:
                return ast.copy_location(ast.BoolOp(op=ast.And(), values=[node.test, node.body]), node)
            if ast.unparse(node.body) == tt:
                return ast.copy_location(ast.BoolOp(op=ast.Or(), values=[node.test, node.orelse]), node)
        # X if c else True  ==>  not c or X ;   X if c else False  ==>  c and X      (boolean position: X is a comparison / test itself)
        def _boolish(e):
            return isinstance(e, (ast.Compare, ast.BoolOp)) or (isinstance(e, ast.UnaryOp) and isinstance(e.op, ast.Not)) \
                or (isinstance(e, ast.Call) and ast.unparse(e.func) in ("isinstance", "any", "all", "bool"))
        if isinstance(node.body, ast.Constant) and isinstance(node.body.value, bool) and _boolish(node.test) \
                and (_boolish(node.orelse) or (isinstance(node.orelse, ast.Constant) and isinstance(node.orelse.value, bool))):
            # True if c else X  ==>  c or X ;   False if c else X  ==>  not c and X
            if isinstance(node.orelse, ast.Constant):
                if node.body.value == node.orelse.value:
                    return node.body
                return node.test if node.body.value else ast.copy_location(ast.UnaryOp(op=ast.Not(), operand=node.test), node)
            if node.body.value:
                return ast.copy_location(ast.BoolOp(op=ast.Or(), values=[node.test, node.orelse]), node)
            return ast.copy_location(ast.BoolOp(op=ast.And(), values=[ast.UnaryOp(op=ast.Not(), operand=node.test), node.orelse]), node)
        if isinstance(node.orelse, ast.Constant) and isinstance(node.orelse.value, bool) and _boolish(node.body) and _boolish(node.test):
            if node.orelse.value:
                return ast.copy_location(ast.BoolOp(op=ast.Or(), values=[ast.UnaryOp(op=ast.Not(), operand=node.test), node.body]), node)
            return ast.copy_location(ast.BoolOp(op=ast.And(), values=[node.test, node.body]), node)
        # (P if E else None) is not None  ==>  E ; inside the branch where E holds the optional IS P
        oe = self._opt_elem(node.test)
        if oe is not None:
            ie, P, E, notnone = oe
            key = ast.unparse(ie)

            class R(ast.NodeTransformer):
                def visit_IfExp(self, n):
                    if ast.unparse(n) == key:
                        return copy.deepcopy(P)
                    self.generic_visit(n)
                    return n

            if notnone:
                return ast.copy_location(ast.IfExp(test=copy.deepcopy(E), body=R().visit(node.body), orelse=node.orelse), node)
            return ast.copy_location(ast.IfExp(test=copy.deepcopy(E), body=R().visit(node.orelse), orelse=node.body), node)
        return node

    def visit_Compare(self, node):
        self.generic_visit(node)
        # E.a is E.b / E.a == E.b   for members of an Enum defined in this module: decided by the members (distinct values, no aliases)
        if len(node.ops) == 1 and isinstance(node.ops[0], (ast.Is, ast.IsNot, ast.Eq, ast.NotEq)):
            a_, b_ = node.left, node.comparators[0]
            if all(isinstance(x, ast.Attribute) and isinstance(x.value, ast.Name) and x.value.id in _ENUM_VALUES and x.attr in _ENUM_VALUES[x.value.id] for x in (a_, b_)) \
                    and a_.value.id == b_.value.id:
                vals = _ENUM_VALUES[a_.value.id]
                if len(set(map(repr, vals.values()))) == len(vals):
                    same = a_.attr == b_.attr
                    return ast.copy_location(ast.Constant(value=same if isinstance(node.ops[0], (ast.Is, ast.Eq)) else not same), node)
        # x in (E for v in XS) / [E for v in XS]   ==>   any(E == x for v in XS)      (membership compares each element, element on the left, and stops at the first hit;
        #                                                    x a plain name / attribute chain, so evaluating it per element changes nothing)
        if len(node.ops) == 1 and isinstance(node.ops[0], (ast.In, ast.NotIn)) and isinstance(node.comparators[0], (ast.GeneratorExp, ast.ListComp)) \
                and len(node.comparators[0].generators) == 1 and not node.comparators[0].generators[0].ifs and simple_arg(node.left) and not isinstance(node.left, ast.Constant) \
                and isinstance(node.comparators[0].elt, ast.Attribute) and node.comparators[0].elt.attr == "label":
            comp = node.comparators[0]
            bound = {x.id for x in ast.walk(comp.generators[0].target) if isinstance(x, ast.Name)}
            if not any(isinstance(x, ast.Name) and x.id in bound for x in ast.walk(node.left)):
                anyc = ast.Call(func=ast.Name(id="any", ctx=ast.Load()), args=[ast.GeneratorExp(elt=ast.Compare(left=comp.elt, ops=[ast.Eq()], comparators=[node.left]), generators=comp.generators)], keywords=[])
                out = anyc if isinstance(node.ops[0], ast.In) else ast.UnaryOp(op=ast.Not(), operand=anyc)
                return ast.fix_missing_locations(ast.copy_location(out, node))
        # x in [E for v in XS if E != K]   ==>   x != K and x in [E for v in XS]        (x, K free of v and of calls; K an enum member / literal)
        # x not in [..same..]              ==>   x == K or x not in [E for v in XS]
        if len(node.ops) == 1 and isinstance(node.ops[0], (ast.In, ast.NotIn)) and isinstance(node.comparators[0], (ast.ListComp, ast.SetComp, ast.GeneratorExp)) \
                and len(node.comparators[0].generators) == 1 and len(node.comparators[0].generators[0].ifs) == 1:
            comp = node.comparators[0]
            g = comp.generators[0]
            c = g.ifs[0]
            bound = {x.id for x in ast.walk(g.target) if isinstance(x, ast.Name)}
            if isinstance(c, ast.Compare) and len(c.ops) == 1 and isinstance(c.ops[0], ast.NotEq) and _pure_expr(node.left) and not any(isinstance(x, ast.Call) for x in ast.walk(node.left)) \
                    and not any(isinstance(x, ast.Name) and x.id in bound for x in ast.walk(node.left)):
                for a_, k_ in ((c.left, c.comparators[0]), (c.comparators[0], c.left)):
                    is_k = (isinstance(k_, ast.Constant) and k_.value is not None) or (isinstance(k_, ast.Attribute) and isinstance(k_.value, ast.Name) and k_.value.id[:1].isupper())
                    if is_k and ast.dump(a_) == ast.dump(comp.elt):
                        bare = type(comp)(elt=comp.elt, generators=[ast.comprehension(target=g.target, iter=g.iter, ifs=[], is_async=0)])
                        member = ast.Compare(left=node.left, ops=[node.ops[0]], comparators=[bare])
                        if isinstance(node.ops[0], ast.In):
                            new = ast.BoolOp(op=ast.And(), values=[ast.Compare(left=copy.deepcopy(node.left), ops=[ast.NotEq()], comparators=[copy.deepcopy(k_)]), member])
                        else:
                            new = ast.BoolOp(op=ast.Or(), values=[ast.Compare(left=copy.deepcopy(node.left), ops=[ast.Eq()], comparators=[copy.deepcopy(k_)]), member])
                        return ast.fix_missing_locations(ast.copy_location(new, node))
        # None == K / None != K  with K a literal that is not None
        def _lit(e):
            # (.. or the shape of an array / dtype: always a tuple)
            return (isinstance(e, ast.Constant) and e.value is not None) or (isinstance(e, ast.Tuple) and all(isinstance(x, ast.Constant) for x in e.elts)) \
                or (isinstance(e, ast.Attribute) and e.attr == "shape")
        if len(node.ops) == 1 and isinstance(node.ops[0], (ast.Eq, ast.NotEq)):
            a, b = node.left, node.comparators[0]
            for x, y in ((a, b), (b, a)):
                if isinstance(x, ast.Constant) and x.value is None and _lit(y):
                    return ast.copy_location(ast.Constant(value=isinstance(node.ops[0], ast.NotEq)), node)
        # {E for ..} <= {K}   ==>   all(E == K for ..)       (a set is inside a one-element set iff each of its elements is that element;
        #                                                     K a literal / enum member, so == on it is the set's own notion of equality)
        if len(node.ops) == 1 and isinstance(node.ops[0], ast.LtE) and isinstance(node.comparators[0], ast.Set) and len(node.comparators[0].elts) == 1 \
                and (isinstance(node.comparators[0].elts[0], ast.Constant) or _enum_member(node.comparators[0].elts[0])):
            L = node.left
            if isinstance(L, ast.Call) and ast.unparse(L.func) in ("set", "frozenset") and len(L.args) == 1 and isinstance(L.args[0], (ast.GeneratorExp, ast.ListComp)):
                L = L.args[0]
            if isinstance(L, (ast.SetComp, ast.GeneratorExp, ast.ListComp)):
                K = node.comparators[0].elts[0]
                gen = ast.GeneratorExp(elt=ast.Compare(left=L.elt, ops=[ast.Eq()], comparators=[K]), generators=L.generators)
                return ast.copy_location(ast.Call(func=ast.Name(id="all", ctx=ast.Load()), args=[gen], keywords=[]), node)
        # (a, b, c) == (x, y, z)  ==>  a == x and b == y and c == z        (same length; != is the negation)
        if len(node.ops) == 1 and isinstance(node.ops[0], (ast.Eq, ast.NotEq)) and isinstance(node.left, ast.Tuple) and isinstance(node.comparators[0], ast.Tuple) \
                and len(node.left.elts) == len(node.comparators[0].elts) > 0 and not any(isinstance(e, ast.Starred) for e in node.left.elts + node.comparators[0].elts) \
                and all(_pure_expr(e) for e in node.left.elts + node.comparators[0].elts) and not all(isinstance(e, ast.Constant) for e in node.left.elts + node.comparators[0].elts):
            conj = ast.BoolOp(op=ast.And(), values=[ast.Compare(left=a, ops=[ast.Eq()], comparators=[b]) for a, b in zip(node.left.elts, node.comparators[0].elts)])
            res = conj if isinstance(node.ops[0], ast.Eq) else ast.UnaryOp(op=ast.Not(), operand=conj)
            return ast.copy_location(res, node)
        # (A if c else B) op K  ==>  (A op K) if c else (B op K)      (K a literal; c pure)
        if len(node.ops) == 1 and isinstance(node.ops[0], (ast.Eq, ast.NotEq)) and isinstance(node.left, ast.IfExp) and _lit(node.comparators[0]) \
                and _pure_expr(node.left.test) and _pure_expr(node.left.body) and _pure_expr(node.left.orelse):
            ie = node.left
            mk = lambda v: self.visit_Compare(ast.copy_location(ast.Compare(left=v, ops=[copy.deepcopy(node.ops[0])], comparators=[copy.deepcopy(node.comparators[0])]), node))
            return self.visit_IfExp(ast.copy_location(ast.IfExp(test=ie.test, body=mk(ie.body), orelse=mk(ie.orelse)), node))
        # a == b == c  ==>  a == b and b == c     (b free of calls)
        if len(node.ops) > 1 and all(isinstance(o, (ast.Eq, ast.Is)) for o in node.ops) \
                and not any(isinstance(x, ast.Call) for c in node.comparators[:-1] for x in ast.walk(c)):
            items = [node.left] + list(node.comparators)
            vals = [ast.Compare(left=copy.deepcopy(a), ops=[op], comparators=[copy.deepcopy(b)]) for a, op, b in zip(items, node.ops, items[1:])]
            return ast.copy_location(ast.BoolOp(op=ast.And(), values=vals), node)
        # next((e for .. if c), S) is not S  ==>  any(c for ..)      (S a sentinel the sequence cannot contain)
        if len(node.ops) == 1 and isinstance(node.ops[0], (ast.IsNot, ast.Is)) and isinstance(node.left, ast.Call) and ast.unparse(node.left.func) == "next" \
                and len(node.left.args) == 2 and isinstance(node.left.args[0], ast.GeneratorExp) and len(node.left.args[0].generators) == 1 \
                and isinstance(node.comparators[0], (ast.Name, ast.Constant)) and ast.unparse(node.comparators[0]) == ast.unparse(node.left.args[1]) \
                and (isinstance(node.comparators[0], ast.Name) or node.comparators[0].value is None) and node.left.args[0].generators[0].ifs:
            g = node.left.args[0].generators[0]
            cond = g.ifs[0] if len(g.ifs) == 1 else ast.BoolOp(op=ast.And(), values=g.ifs)
            gen = ast.GeneratorExp(elt=cond, generators=[ast.comprehension(target=g.target, iter=g.iter, ifs=[], is_async=0)])
            call = ast.Call(func=ast.Name(id="any", ctx=ast.Load()), args=[gen], keywords=[])
            return ast.copy_location(call if isinstance(node.ops[0], ast.IsNot) else ast.UnaryOp(op=ast.Not(), operand=call), node)
        # K == x  ==>  x == K      (K a literal / enum member / constant name, x not)
        if len(node.ops) == 1 and isinstance(node.ops[0], (ast.Eq, ast.NotEq)):
            def constlike(e):
                return isinstance(e, ast.Constant) or _enum_member(e) or (isinstance(e, ast.Name) and e.id.isupper())
            if constlike(node.left) and not constlike(node.comparators[0]) and not any(isinstance(x, ast.Call) for x in ast.walk(node.comparators[0])):
                return ast.copy_location(ast.Compare(left=node.comparators[0], ops=node.ops, comparators=[node.left]), node)
            # <Class or None> is/== None
        if len(node.ops) == 1 and isinstance(node.ops[0], (ast.Is, ast.IsNot)) and isinstance(node.comparators[0], ast.Constant) and node.comparators[0].value is None:
            l = node.left
            if isinstance(l, ast.Constant):
                # <literal> is None: true only for the literal None
                return ast.copy_location(ast.Constant(value=(l.value is None) == isinstance(node.ops[0], ast.Is)), node)
            if (isinstance(l, ast.Name) and l.id in CLASS_NAMES) or (isinstance(l, ast.Attribute) and isinstance(l.value, ast.Name) and l.value.id in CLASS_NAMES
                                                                     and l.attr in ("_build", "_write", "build", "write")):
                return ast.copy_location(ast.Constant(value=isinstance(node.ops[0], ast.IsNot)), node)
        return node

    def visit_Try(self, node):
        self.generic_visit(node)
        # try: x = L[-1]  except IndexError: A  else: B     ==>    if L: x = L[-1]; B  else: A        (L a list: indexing its end fails iff it is empty)
        if len(node.body) == 1 and isinstance(node.body[0], ast.Assign) and len(node.body[0].targets) == 1 and isinstance(node.body[0].targets[0], ast.Name) \
                and isinstance(node.body[0].value, ast.Subscript) and ast.unparse(node.body[0].value.slice) in ("-1", "0") and not node.finalbody and len(node.handlers) == 1 \
                and node.handlers[0].type is not None and ast.unparse(node.handlers[0].type) == "IndexError" and node.handlers[0].name is None \
                and not any(isinstance(x, ast.Call) for x in ast.walk(node.body[0].value)):
            L = node.body[0].value.value
            return ast.copy_location(ast.If(test=copy.deepcopy(L), body=[node.body[0]] + node.orelse, orelse=node.handlers[0].body), node)
        # try: A  except E: H (always leaves)  else: B      ==>   try: A  except E: H ;  B
        if node.orelse and not node.finalbody and node.handlers and all(always_exits(h.body) for h in node.handlers):
            rest = node.orelse
            node.orelse = []
            return [node] + rest
        return node

    def visit_With(self, node):
        self.generic_visit(node)
        if len(node.items) == 1 and node.items[0].optional_vars is None:
            ce = node.items[0].context_expr
            # with nullcontext(x): body  ==>  body
            if isinstance(ce, ast.Call) and ast.unparse(ce.func) in ("nullcontext", "contextlib.nullcontext"):
                return node.body
            # with (A if c else B): body  ==>  if c: with A: body  else: with B: body
            if isinstance(ce, ast.IfExp):
                mk = lambda e: self.visit_With(ast.copy_location(ast.With(items=[ast.withitem(context_expr=e, optional_vars=None)], body=copy.deepcopy(node.body)), node))
                a, b = mk(ce.body), mk(ce.orelse)
                return ast.copy_location(ast.If(test=ce.test, body=a if isinstance(a, list) else [a], orelse=b if isinstance(b, list) else [b]), node)
        if len(node.items) == 1 and isinstance(node.items[0].optional_vars, ast.Name):
            ce, v = node.items[0].context_expr, node.items[0].optional_vars
            bind = lambda e: ast.copy_location(ast.Assign(targets=[ast.Name(id=v.id, ctx=ast.Store())], value=e, lineno=node.lineno), node)
            # with nullcontext(x) as v: body  ==>  v = x; body
            if isinstance(ce, ast.Call) and ast.unparse(ce.func) in ("nullcontext", "contextlib.nullcontext") and len(ce.args) <= 1 and not ce.keywords:
                return [ast.fix_missing_locations(bind(ce.args[0] if ce.args else ast.Constant(value=None)))] + node.body
            # with (A if c else B) as v: body  ==>  if c: with A as v: body  else: with B as v: body
            if isinstance(ce, ast.IfExp):
                mk = lambda e: self.visit_With(ast.copy_location(ast.With(items=[ast.withitem(context_expr=e, optional_vars=ast.Name(id=v.id, ctx=ast.Store()))], body=copy.deepcopy(node.body)), node))
                a, b = mk(ce.body), mk(ce.orelse)
                return ast.fix_missing_locations(ast.copy_location(ast.If(test=ce.test, body=a if isinstance(a, list) else [a], orelse=b if isinstance(b, list) else [b]), node))
            # with self as v: body  ==>  with self: v = self; body      (the context managers of this package return themselves from __enter__;
            # for Tdf that is an obligation of C08's handle-discipline rule, checked on every run)
            if isinstance(ce, ast.Name) and ce.id == "self":
                node.items[0].optional_vars = None
                node.body = [ast.fix_missing_locations(bind(ast.Name(id="self", ctx=ast.Load())))] + node.body
        return node

    def visit_Call(self, node):
        self.generic_visit(node)
        fname = ast.unparse(node.func) if isinstance(node.func, (ast.Name, ast.Attribute)) else ""
        # zip(range(A, len(X)), X[A:])  ==>  enumerate(X[A:], start=A)        (the indices of the elements of the slice)
        if fname == "zip" and len(node.args) == 2 and not node.keywords and isinstance(node.args[0], ast.Call) and ast.unparse(node.args[0].func) == "range" \
                and len(node.args[0].args) == 2 and not node.args[0].keywords and isinstance(node.args[1], ast.Subscript) and isinstance(node.args[1].slice, ast.Slice) \
                and node.args[1].slice.upper is None and node.args[1].slice.step is None and node.args[1].slice.lower is not None:
            a_, hi = node.args[0].args
            X = node.args[1].value
            if ast.unparse(a_) == ast.unparse(node.args[1].slice.lower) and ast.unparse(hi) == f"len({ast.unparse(X)})" and _pure_expr(a_):
                return ast.copy_location(ast.Call(func=ast.Name(id="enumerate", ctx=ast.Load()), args=[node.args[1]], keywords=[ast.keyword(arg="start", value=a_)]), node)
        # (f if c else g)(args)  ==>  f(args) if c else g(args)      (arguments free of calls)
        if isinstance(node.func, ast.IfExp) and not any(isinstance(x, ast.Call) for a in list(node.args) + [k.value for k in node.keywords] for x in ast.walk(a)):
            mk = lambda f: ast.Call(func=f, args=copy.deepcopy(node.args), keywords=copy.deepcopy(node.keywords))
            return ast.copy_location(ast.IfExp(test=node.func.test, body=mk(node.func.body), orelse=mk(node.func.orelse)), node)
        # (lambda p, q: E)(a, b)  ==>  E[p := a, q := b]      (arguments free of calls, or used once)
        if isinstance(node.func, ast.Lambda) and not node.keywords and not node.func.args.defaults and not node.func.args.vararg and not node.func.args.kwarg \
                and not node.func.args.kwonlyargs and len(node.func.args.args) == len(node.args) and not any(isinstance(a, ast.Starred) for a in node.args):
            params = [a.arg for a in node.func.args.args]
            body = node.func.body
            okk = True
            for p_, a in zip(params, node.args):
                uses = sum(1 for x in ast.walk(body) if isinstance(x, ast.Name) and x.id == p_)
                if uses != 1 and any(isinstance(x, ast.Call) for x in ast.walk(a)):
                    okk = False
            if okk:
                return ast.copy_location(self.visit(_subst_names(body, dict(zip(params, node.args)))), node)
        # f(*[a, b])  ==>  f(a, b)
        if any(isinstance(a, ast.Starred) and isinstance(a.value, (ast.List, ast.Tuple)) for a in node.args):
            args = []
            for a in node.args:
                if isinstance(a, ast.Starred) and isinstance(a.value, (ast.List, ast.Tuple)):
                    args += a.value.elts
                else:
                    args.append(a)
            node.args = args
        # range(max(x, 0))  ==>  range(x)       (a negative count yields the empty range either way)
        if fname == "range" and len(node.args) == 1 and isinstance(node.args[0], ast.Call) and ast.unparse(node.args[0].func) == "max" and len(node.args[0].args) == 2:
            a, b = node.args[0].args
            other = b if (isinstance(a, ast.Constant) and a.value == 0) else (a if (isinstance(b, ast.Constant) and b.value == 0) else None)
            if other is not None:
                return ast.copy_location(ast.Call(func=node.func, args=[other], keywords=[]), node)
        # len(np.array(ROWS[, dtype=..]))  ==>  len(ROWS)        (ROWS a list display / comprehension: one array row per element)
        # len(bytes(N)) = N ;  len(b"..") / len("..") = the literal's length
        if fname == "len" and len(node.args) == 1 and not node.keywords:
            a0 = node.args[0]
            if isinstance(a0, ast.Call) and isinstance(a0.func, ast.Name) and a0.func.id == "bytes" and len(a0.args) == 1 and not a0.keywords and isinstance(a0.args[0], ast.Constant) \
                    and type(a0.args[0].value) is int and a0.args[0].value >= 0:
                return ast.copy_location(ast.Constant(value=a0.args[0].value), node)
            if isinstance(a0, ast.Constant) and isinstance(a0.value, (bytes, str)):
                return ast.copy_location(ast.Constant(value=len(a0.value)), node)
        if fname == "len" and len(node.args) == 1 and isinstance(node.args[0], ast.Call) and ast.unparse(node.args[0].func) in ("np.array", "np.asarray", "numpy.array", "numpy.asarray") \
                and node.args[0].args and isinstance(node.args[0].args[0], (ast.ListComp, ast.List)) and all(k.arg == "dtype" for k in node.args[0].keywords):
            return self.visit_Call(ast.copy_location(ast.Call(func=node.func, args=[node.args[0].args[0]], keywords=[]), node))
        # any(E(x) for x in (a, b, ..)) over a display of plain names / attributes  ==>  E(a) or E(b) or ..   (all -> and): same
        # evaluation order and short-circuit as the generator
        if fname in ("any", "all") and len(node.args) == 1 and not node.keywords and isinstance(node.args[0], (ast.GeneratorExp, ast.ListComp)) and len(node.args[0].generators) == 1 \
                and isinstance(node.args[0], ast.GeneratorExp):
            g_ = node.args[0].generators[0]
            if not g_.ifs and not g_.is_async and isinstance(g_.target, ast.Name) and isinstance(g_.iter, (ast.Tuple, ast.List)) and 1 <= len(g_.iter.elts) <= 6 \
                    and all(isinstance(e, (ast.Name, ast.Attribute)) and all(isinstance(y, (ast.Name, ast.Attribute, ast.Load)) for y in ast.walk(e)) for e in g_.iter.elts) \
                    and not any(isinstance(y, (ast.Lambda, ast.GeneratorExp, ast.ListComp, ast.NamedExpr)) for y in ast.walk(node.args[0].elt)):
                import copy as _cp

                class _Sub(ast.NodeTransformer):
                    def __init__(self, name, repl):
                        self.name, self.repl = name, repl

                    def visit_Name(self, n):
                        return _cp.deepcopy(self.repl) if n.id == self.name and isinstance(n.ctx, ast.Load) else n
                vals = [_Sub(g_.target.id, e).visit(_cp.deepcopy(node.args[0].elt)) for e in g_.iter.elts]
                out_ = vals[0] if len(vals) == 1 else ast.BoolOp(op=ast.Or() if fname == "any" else ast.And(), values=vals)
                if len(vals) == 1:
                    out_ = ast.Call(func=ast.Name(id="bool", ctx=ast.Load()), args=[out_], keywords=[])
                return ast.copy_location(ast.fix_missing_locations(out_), node)
        # any((A, B, ..)) / all([A, B, ..]) over a display of pure expressions  ==>  A or B or .. / A and B and ..  (as a truth value)
        if fname in ("any", "all") and len(node.args) == 1 and not node.keywords and isinstance(node.args[0], (ast.Tuple, ast.List)) and 2 <= len(node.args[0].elts) <= 8 \
                and all(_pure_expr(e) and not isinstance(e, ast.Starred) for e in node.args[0].elts):
            return ast.copy_location(ast.BoolOp(op=ast.Or() if fname == "any" else ast.And(), values=list(node.args[0].elts)), node)
        # len([E for x in IT])  ==>  len(IT)
        if fname == "len" and len(node.args) == 1 and isinstance(node.args[0], (ast.ListComp, ast.GeneratorExp)) and len(node.args[0].generators) == 1 \
                and not node.args[0].generators[0].ifs and _pure_expr(node.args[0].elt):
            return ast.copy_location(ast.Call(func=node.func, args=[node.args[0].generators[0].iter], keywords=[]), node)
        # slice(x.start, x.stop)  ==>  x        (the runs are built as slice(a, b): no step)
        if fname == "slice" and len(node.args) == 2 and all(isinstance(a, ast.Attribute) for a in node.args) and node.args[0].attr == "start" and node.args[1].attr == "stop" \
                and ast.unparse(node.args[0].value) == ast.unparse(node.args[1].value) and isinstance(node.args[0].value, ast.Name):
            return node.args[0].value
        # list() / dict()  ==>  [] / {}
        if fname == "list" and not node.args and not node.keywords:
            return ast.copy_location(ast.List(elts=[], ctx=ast.Load()), node)
        if fname == "dict" and not node.args and not node.keywords:
            return ast.copy_location(ast.Dict(keys=[], values=[]), node)
        # setattr(x, "name", v) is handled at statement level (visit_Expr)
        # {K1: V1, ..}.get(k)  ==>  V1 if k == K1 else (.. else None)
        if isinstance(node.func, ast.Attribute) and node.func.attr == "get" and isinstance(node.func.value, ast.Dict) and 1 <= len(node.args) <= 2 and not node.keywords \
                and node.func.value.keys and all(k is not None for k in node.func.value.keys) and not any(isinstance(x, ast.Call) for x in ast.walk(node.args[0])):
            d = node.func.value
            out = node.args[1] if len(node.args) == 2 else ast.Constant(value=None)
            for k, v in reversed(list(zip(d.keys, d.values))):
                out = ast.IfExp(test=ast.Compare(left=copy.deepcopy(node.args[0]), ops=[ast.Eq()], comparators=[k]), body=v, orelse=out)
            return ast.copy_location(out, node)
        # sum(G, start)  ==>  start + sum(G) ;  sum(E for v in (a, b, c))  ==>  E[a] + E[b] + E[c]
        if fname == "sum" and len(node.args) == 2 and not node.keywords:
            return ast.copy_location(ast.BinOp(left=node.args[1], op=ast.Add(), right=self.visit_Call(ast.Call(func=node.func, args=[node.args[0]], keywords=[]))), node)
        if fname == "sum" and len(node.args) == 1 and isinstance(node.args[0], (ast.GeneratorExp, ast.ListComp)) and len(node.args[0].generators) == 1:
            g = node.args[0].generators[0]
            if isinstance(g.iter, (ast.Tuple, ast.List)) and 0 < len(g.iter.elts) <= 8 and not g.ifs and isinstance(g.target, ast.Name):
                vals = [self.visit(_subst_names(node.args[0].elt, {g.target.id: e})) for e in g.iter.elts]
                out = vals[0]
                for v in vals[1:]:
                    out = ast.BinOp(left=out, op=ast.Add(), right=v)
                return ast.copy_location(out, node)
        # next((E for v in L), D) / next((E for v in reversed(L)), D)   ==>   E[L[0]] / E[L[-1]]  if L else  D
        # (an unfiltered generator yields its first element iff the sequence is not empty; L a name / attribute path, E pure)
        if fname == "next" and len(node.args) == 2 and isinstance(node.args[0], ast.GeneratorExp) and len(node.args[0].generators) == 1 \
                and not node.args[0].generators[0].ifs and isinstance(node.args[0].generators[0].target, ast.Name) and _pure_expr(node.args[0].elt):
            g = node.args[0].generators[0]
            L, idx = g.iter, 0
            if isinstance(L, ast.Call) and ast.unparse(L.func) == "reversed" and len(L.args) == 1:
                L, idx = L.args[0], -1
            if isinstance(L, (ast.Name, ast.Attribute)) and all(isinstance(x, (ast.Name, ast.Attribute)) or isinstance(x, ast.expr_context) for x in ast.walk(L)):
                elem = ast.Subscript(value=copy.deepcopy(L), slice=ast.Constant(value=idx), ctx=ast.Load())
                return ast.copy_location(ast.IfExp(test=copy.deepcopy(L), body=_subst_names(node.args[0].elt, {g.target.id: elem}), orelse=node.args[1]), node)
        # next((True for .. if c), False)  ==>  any(c for ..)
        if fname == "next" and len(node.args) == 2 and isinstance(node.args[0], ast.GeneratorExp) and len(node.args[0].generators) == 1 \
                and isinstance(node.args[0].elt, ast.Constant) and node.args[0].elt.value is True and isinstance(node.args[1], ast.Constant) and node.args[1].value is False:
            g = node.args[0].generators[0]
            if g.ifs:
                cond = g.ifs[0] if len(g.ifs) == 1 else ast.BoolOp(op=ast.And(), values=g.ifs)
                gen = ast.GeneratorExp(elt=cond, generators=[ast.comprehension(target=g.target, iter=g.iter, ifs=[], is_async=0)])
                return ast.copy_location(ast.Call(func=ast.Name(id="any", ctx=ast.Load()), args=[gen], keywords=[]), node)
        # getattr(x, "name")  ==>  x.name
        if isinstance(node.func, ast.Name) and node.func.id == "getattr" and len(node.args) == 2 and not node.keywords \
                and isinstance(node.args[1], ast.Constant) and isinstance(node.args[1].value, str) and node.args[1].value.isidentifier():
            return ast.copy_location(ast.Attribute(value=node.args[0], attr=node.args[1].value, ctx=ast.Load()), node)
        # all(E for v in (a, b, c))  ==>  E[a] and E[b] and E[c]        (any -> or)
        if isinstance(node.func, ast.Name) and node.func.id in ("all", "any") and len(node.args) == 1 and not node.keywords \
                and isinstance(node.args[0], (ast.GeneratorExp, ast.ListComp)) and len(node.args[0].generators) == 1:
            g = node.args[0].generators[0]
            if isinstance(g.iter, (ast.Tuple, ast.List)) and 0 < len(g.iter.elts) <= 12 and not g.ifs:
                envs = None
                if isinstance(g.target, ast.Name):
                    envs = [{g.target.id: e} for e in g.iter.elts]
                elif isinstance(g.target, (ast.Tuple, ast.List)) and all(isinstance(t, ast.Name) for t in g.target.elts) \
                        and all(isinstance(e, (ast.Tuple, ast.List)) and len(e.elts) == len(g.target.elts) for e in g.iter.elts):
                    envs = [dict(zip([t.id for t in g.target.elts], e.elts)) for e in g.iter.elts]
                if envs is not None:
                    vals = [self.visit(_subst_names(node.args[0].elt, env)) for env in envs]
                    op = ast.And() if node.func.id == "all" else ast.Or()
                    return ast.copy_location(vals[0] if len(vals) == 1 else ast.BoolOp(op=op, values=vals), node)
        return node

    def _index_pairs(self, node):
        # (E(A[i], B[i]) for i in range(min(len(A), len(B))))  ==>  (E(a, b) for a, b in zip(A, B)) ;  range(len(A)) -> for a in A
        if len(node.generators) != 1 or node.generators[0].ifs or not isinstance(node.generators[0].target, ast.Name):
            return node
        g = node.generators[0]
        it = g.iter
        if not (isinstance(it, ast.Call) and isinstance(it.func, ast.Name) and it.func.id == "range" and len(it.args) == 1 and not it.keywords):
            return node
        b = it.args[0]
        seqs = None
        ln = lambda e: e.args[0] if isinstance(e, ast.Call) and isinstance(e.func, ast.Name) and e.func.id == "len" and len(e.args) == 1 else None
        if ln(b) is not None:
            seqs = [ln(b)]
        elif isinstance(b, ast.Call) and isinstance(b.func, ast.Name) and b.func.id == "min" and len(b.args) >= 2 and all(ln(a) is not None for a in b.args):
            seqs = [ln(a) for a in b.args]
        if not seqs or any(isinstance(x, ast.Call) for s_ in seqs for x in ast.walk(s_)):
            return node
        i = g.target.id
        texts = [ast.unparse(s_) for s_ in seqs]
        uses = [x for x in ast.walk(node.elt) if isinstance(x, ast.Name) and x.id == i]
        subs = [x for x in ast.walk(node.elt) if isinstance(x, ast.Subscript) and isinstance(x.slice, ast.Name) and x.slice.id == i and ast.unparse(x.value) in texts]
        if not subs or len(subs) != len(uses):
            return node
        names = [f"_p{k}_{i}" for k in range(len(seqs))]

        class R(ast.NodeTransformer):
            def visit_Subscript(self, x):
                if isinstance(x.slice, ast.Name) and x.slice.id == i and ast.unparse(x.value) in texts:
                    return ast.copy_location(ast.Name(id=names[texts.index(ast.unparse(x.value))], ctx=ast.Load()), x)
                self.generic_visit(x)
                return x

        node.elt = R().visit(node.elt)
        if len(seqs) == 1:
            node.generators = [ast.comprehension(target=ast.Name(id=names[0], ctx=ast.Store()), iter=seqs[0], ifs=[], is_async=0)]
        else:
            tgt = ast.Tuple(elts=[ast.Name(id=n_, ctx=ast.Store()) for n_ in names], ctx=ast.Store())
            node.generators = [ast.comprehension(target=tgt, iter=ast.Call(func=ast.Name(id="zip", ctx=ast.Load()), args=seqs, keywords=[]), ifs=[], is_async=0)]
        return node

    def _fuse(self, node):
        node = self._index_pairs(node)
        # (E for n, v in enumerate(X) if c)  with n unused  ==>  (E for v in X if c)
        for gi, g in enumerate(node.generators):
            if isinstance(g.target, ast.Tuple) and len(g.target.elts) == 2 and isinstance(g.target.elts[0], ast.Name) and isinstance(g.iter, ast.Call) \
                    and ast.unparse(g.iter.func) == "enumerate" and len(g.iter.args) == 1 and not g.iter.keywords:
                nname = g.target.elts[0].id
                rest = [node.elt] + [c for gg in node.generators[gi:] for c in gg.ifs] + [gg.iter for gg in node.generators[gi + 1:]] + \
                    ([node.key, node.value] if isinstance(node, ast.DictComp) else [])
                if not any(isinstance(x, ast.Name) and x.id == nname for r in rest if r is not None for x in ast.walk(r)):
                    g.target = g.target.elts[1]
                    g.iter = g.iter.args[0]
        # [F(v) for v in (E for x in IT)]  ==>  [F(E) for x in IT]
        if len(node.generators) == 1 and not node.generators[0].ifs and isinstance(node.generators[0].target, ast.Name) \
                and isinstance(node.generators[0].iter, (ast.GeneratorExp, ast.ListComp)) and len(node.generators[0].iter.generators) == 1:
            inner = node.generators[0].iter
            v = node.generators[0].target.id
            uses = sum(1 for x in ast.walk(node.elt) if isinstance(x, ast.Name) and x.id == v)
            if uses == 1 or not any(isinstance(x, ast.Call) for x in ast.walk(inner.elt)) or _pure_expr(inner.elt):
                node.elt = _subst_names(node.elt, {v: inner.elt})
                node.generators = inner.generators
        return node

    def visit_ListComp(self, node):
        self.generic_visit(node)
        return self._fuse(node)

    def visit_GeneratorExp(self, node):
        self.generic_visit(node)
        return self._fuse(node)

    def visit_UnaryOp(self, node):
        self.generic_visit(node)
        # not (a == b)  ==>  a != b   (equality, identity and membership only)
        flip = {ast.Eq: ast.NotEq, ast.NotEq: ast.Eq, ast.Is: ast.IsNot, ast.IsNot: ast.Is, ast.In: ast.NotIn, ast.NotIn: ast.In}
        # not any(a != b for ...)  ==>  all(a == b for ...)
        if isinstance(node.op, ast.Not) and isinstance(node.operand, ast.Call) and isinstance(node.operand.func, ast.Name) and node.operand.func.id in ("any", "all") \
                and len(node.operand.args) == 1 and isinstance(node.operand.args[0], (ast.GeneratorExp, ast.ListComp)):
            g = node.operand.args[0]
            e = g.elt
            ne = None
            if isinstance(e, ast.Compare) and len(e.ops) == 1 and type(e.ops[0]) in flip:
                ne = ast.Compare(left=e.left, ops=[flip[type(e.ops[0])]()], comparators=e.comparators)
            elif isinstance(e, ast.UnaryOp) and isinstance(e.op, ast.Not):
                ne = e.operand
            if ne is not None:
                other = "all" if node.operand.func.id == "any" else "any"
                g2 = type(g)(elt=ne, generators=g.generators)
                return ast.copy_location(ast.Call(func=ast.Name(id=other, ctx=ast.Load()), args=[g2], keywords=[]), node)
        if isinstance(node.op, ast.Not) and isinstance(node.operand, ast.Compare) and len(node.operand.ops) == 1 and type(node.operand.ops[0]) in flip:
            c = node.operand
            return ast.copy_location(ast.Compare(left=c.left, ops=[flip[type(c.ops[0])]()], comparators=c.comparators), node)
        if isinstance(node.op, ast.Not) and isinstance(node.operand, ast.UnaryOp) and isinstance(node.operand.op, ast.Not):
            inner = node.operand.operand
            if isinstance(inner, (ast.Compare, ast.BoolOp)) or (isinstance(inner, ast.Call) and ast.unparse(inner.func) in ("any", "all", "isinstance", "bool", "hasattr")):
                return inner
        return node

    def visit_Subscript(self, node):
        self.generic_visit(node)
        # {True: A, False: B}[bool(c)] / [c] with c a comparison   ==>   A if c else B      (A, B plain names / attributes: nothing is evaluated by the display)
        if isinstance(node.ctx, ast.Load) and isinstance(node.value, ast.Dict) and len(node.value.keys) == 2 and all(isinstance(k, ast.Constant) and isinstance(k.value, bool) for k in node.value.keys) \
                and {k.value for k in node.value.keys} == {True, False} and all(simple_arg(v) for v in node.value.values):
            key = node.slice
            if isinstance(key, ast.Call) and isinstance(key.func, ast.Name) and key.func.id == "bool" and len(key.args) == 1 and not key.keywords:
                key = key.args[0]
            elif not isinstance(key, (ast.Compare, ast.BoolOp)) and not (isinstance(key, ast.UnaryOp) and isinstance(key.op, ast.Not)) \
                    and not (isinstance(key, ast.Call) and isinstance(key.func, ast.Name) and key.func.id in ("isinstance", "hasattr", "callable")):
                key = None
            if key is not None and not (isinstance(key, ast.Compare) and any(isinstance(op, (ast.In, ast.NotIn)) is False and False for op in key.ops)):
                by = {k.value: v for k, v in zip(node.value.keys, node.value.values)}
                return ast.fix_missing_locations(ast.copy_location(ast.IfExp(test=key, body=by[True], orelse=by[False]), node))
        # XS[next(i for (i, x) in enumerate(XS) if C(x))]   ==>   next(x for x in XS if C(x))     (XS a name / attribute chain, i not read by C)
        if isinstance(node.ctx, ast.Load) and isinstance(node.slice, ast.Call) and ast.unparse(node.slice.func) == "next" and len(node.slice.args) == 1 and not node.slice.keywords \
                and isinstance(node.slice.args[0], ast.GeneratorExp) and len(node.slice.args[0].generators) == 1 and simple_arg(node.value) and not isinstance(node.value, ast.Constant):
            ge = node.slice.args[0]
            g = ge.generators[0]
            if isinstance(g.iter, ast.Call) and ast.unparse(g.iter.func) == "enumerate" and len(g.iter.args) == 1 and not g.iter.keywords and ast.dump(g.iter.args[0]) == ast.dump(node.value) \
                    and isinstance(g.target, ast.Tuple) and len(g.target.elts) == 2 and isinstance(g.target.elts[0], ast.Name) and isinstance(ge.elt, ast.Name) and ge.elt.id == g.target.elts[0].id \
                    and not any(isinstance(y, ast.Name) and y.id == ge.elt.id for c_ in g.ifs for y in ast.walk(c_)) and isinstance(g.target.elts[1], ast.Name):
                x_ = g.target.elts[1]
                new = ast.Call(func=node.slice.func, args=[ast.GeneratorExp(elt=ast.Name(id=x_.id, ctx=ast.Load()),
                                                                            generators=[ast.comprehension(target=x_, iter=g.iter.args[0], ifs=g.ifs, is_async=0)])], keywords=[])
                return ast.fix_missing_locations(ast.copy_location(new, node))
        # next(((A, B) for ..)[, (DA, DB)])[k]   ==>   next((<k-th> for ..)[, <k-th default>])
        if isinstance(node.ctx, ast.Load) and isinstance(node.slice, ast.Constant) and isinstance(node.slice.value, int) and isinstance(node.value, ast.Call) \
                and ast.unparse(node.value.func) == "next" and node.value.args and isinstance(node.value.args[0], ast.GeneratorExp) and isinstance(node.value.args[0].elt, ast.Tuple) \
                and 0 <= node.slice.value < len(node.value.args[0].elt.elts) and not node.value.keywords \
                and (len(node.value.args) == 1 or (len(node.value.args) == 2 and isinstance(node.value.args[1], ast.Tuple) and len(node.value.args[1].elts) == len(node.value.args[0].elt.elts))):
            k = node.slice.value
            g = node.value.args[0]
            gen = ast.GeneratorExp(elt=g.elt.elts[k], generators=g.generators)
            args = [gen] + ([node.value.args[1].elts[k]] if len(node.value.args) == 2 else [])
            return self.visit_Call(ast.copy_location(ast.Call(func=node.value.func, args=args, keywords=[]), node))
        # {True: A, False: B}[c]  ==>  A if c else B
        if isinstance(node.value, ast.Dict) and len(node.value.keys) == 2 and all(isinstance(k, ast.Constant) and isinstance(k.value, bool) for k in node.value.keys) \
                and {k.value for k in node.value.keys} == {True, False} and isinstance(node.ctx, ast.Load):
            d = {k.value: v for k, v in zip(node.value.keys, node.value.values)}
            return ast.copy_location(ast.IfExp(test=node.slice, body=d[True], orelse=d[False]), node)
        # X[slice(a, b)]  ==>  X[a:b]
        sl = node.slice
        if isinstance(sl, ast.Call) and isinstance(sl.func, ast.Name) and sl.func.id == "slice" and not sl.keywords and 1 <= len(sl.args) <= 3:
            a = list(sl.args)
            none = lambda x: None if isinstance(x, ast.Constant) and x.value is None else x
            if len(a) == 1:
                lo, hi, stp = None, none(a[0]), None
            else:
                lo, hi, stp = none(a[0]), none(a[1]), none(a[2]) if len(a) == 3 else None
            node.slice = ast.Slice(lower=lo, upper=hi, step=stp)
        return node

    def visit_For(self, node):
        self.generic_visit(node)
        # for v in IT: if C: raise X     ==>   if any(C for v in IT): raise X
        if not node.orelse and len(node.body) == 1 and isinstance(node.body[0], ast.If) and not node.body[0].orelse \
                and len(node.body[0].body) == 1 and isinstance(node.body[0].body[0], ast.Raise):
            names = {x.id for x in ast.walk(node.target) if isinstance(x, ast.Name)}
            rs = node.body[0].body[0]
            if not any(isinstance(x, ast.Name) and x.id in names for x in ast.walk(rs)):
                gen = ast.GeneratorExp(elt=node.body[0].test, generators=[ast.comprehension(target=node.target, iter=node.iter, ifs=[], is_async=0)])
                for x in ast.walk(gen.generators[0].target):
                    if isinstance(x, ast.Name):
                        x.ctx = ast.Store()
                test = ast.Call(func=ast.Name(id="any", ctx=ast.Load()), args=[gen], keywords=[])
                return ast.copy_location(ast.If(test=test, body=[rs], orelse=[]), node)
        # for v in (A if c else B): body   ==>   if c: for v in A: body   else: for v in B: body      (c evaluated once, first, either way)
        if isinstance(node.iter, ast.IfExp) and not node.orelse and _pure_expr(node.iter.test) \
                and not any(isinstance(n, (ast.Break, ast.Continue)) for s_ in node.body for n in ast.walk(s_)):
            a = ast.copy_location(ast.For(target=copy.deepcopy(node.target), iter=node.iter.body, body=copy.deepcopy(node.body), orelse=[], type_comment=None), node)
            b = ast.copy_location(ast.For(target=copy.deepcopy(node.target), iter=node.iter.orelse, body=copy.deepcopy(node.body), orelse=[], type_comment=None), node)
            ra, rb = self.visit_For(a), self.visit_For(b)
            return ast.copy_location(ast.If(test=node.iter.test, body=ra if isinstance(ra, list) else [ra], orelse=rb if isinstance(rb, list) else [rb]), node)
        # for p in zip(A, B): .. f(*p) .. p[0] ..   ==>   for p_0, p_1 in zip(A, B): .. f(p_0, p_1) .. p_0 ..     (zip(A): for p_0 in A)
        if isinstance(node.target, ast.Name) and isinstance(node.iter, ast.Call) and isinstance(node.iter.func, ast.Name) and node.iter.func.id in ("zip", "enumerate") \
                and not node.iter.keywords and not any(isinstance(a, ast.Starred) for a in node.iter.args) \
                and (len(node.iter.args) >= 1 if node.iter.func.id == "zip" else len(node.iter.args) == 1):
            k = len(node.iter.args) if node.iter.func.id == "zip" else 2
            v = node.target.id
            uses = [n for s_ in node.body + node.orelse for n in ast.walk(s_) if isinstance(n, ast.Name) and n.id == v]
            wrapped = set()
            okk = True
            for s_ in node.body + node.orelse:
                for n in ast.walk(s_):
                    if isinstance(n, ast.Starred) and isinstance(n.value, ast.Name) and n.value.id == v and isinstance(n.ctx, ast.Load):
                        wrapped.add(id(n.value))
                    if isinstance(n, ast.Subscript) and isinstance(n.value, ast.Name) and n.value.id == v and isinstance(n.ctx, ast.Load) \
                            and isinstance(n.slice, ast.Constant) and isinstance(n.slice.value, int) and 0 <= n.slice.value < k:
                        wrapped.add(id(n.value))
            starred_ok = all(not (isinstance(n, ast.Starred) and isinstance(n.value, ast.Name) and n.value.id == v) or True for s_ in node.body for n in ast.walk(s_))
            if uses and all(id(u_) in wrapped for u_ in uses) and starred_ok:
                names = [f"{v}_{i}" for i in range(k)]
                taken = {n.id for n in ast.walk(node) if isinstance(n, ast.Name)}
                if not (set(names) & taken):
                    class Z(ast.NodeTransformer):
                        def visit_Call(self, c):
                            self.generic_visit(c)
                            new_args = []
                            for a in c.args:
                                if isinstance(a, ast.Starred) and isinstance(a.value, ast.Name) and a.value.id == v:
                                    new_args += [ast.Name(id=nm, ctx=ast.Load()) for nm in names]
                                else:
                                    new_args.append(a)
                            c.args = new_args
                            return c

                        def visit_Subscript(self, n):
                            self.generic_visit(n)
                            if isinstance(n.value, ast.Name) and n.value.id == v and isinstance(n.slice, ast.Constant) and isinstance(n.ctx, ast.Load):
                                return ast.copy_location(ast.Name(id=names[n.slice.value], ctx=ast.Load()), n)
                            return n

                    # a starred use outside a call argument list (e.g. [*p]) is left alone: refuse then
                    stars = [n for s_ in node.body + node.orelse for n in ast.walk(s_) if isinstance(n, ast.Starred) and isinstance(n.value, ast.Name) and n.value.id == v]
                    in_calls = {id(a) for s_ in node.body + node.orelse for c in ast.walk(s_) if isinstance(c, ast.Call) for a in c.args}
                    if all(id(st_) in in_calls for st_ in stars):
                        node.body = [Z().visit(s_) for s_ in node.body]
                        node.orelse = [Z().visit(s_) for s_ in node.orelse]
                        if k == 1:
                            node.target = ast.copy_location(ast.Name(id=names[0], ctx=ast.Store()), node.target)
                            node.iter = node.iter.args[0]
                        else:
                            node.target = ast.copy_location(ast.Tuple(elts=[ast.Name(id=nm, ctx=ast.Store()) for nm in names], ctx=ast.Store()), node.target)
                        ast.fix_missing_locations(node)
        # for v in [E for x in IT if c]: body   ==>   for x in IT: if c: v = E; body        (E free of impure calls)
        itc = node.iter
        if isinstance(itc, (ast.ListComp, ast.GeneratorExp)) and len(itc.generators) > 1 and not node.orelse and _pure_expr(itc.elt) \
                and all(_pure_expr(c) for g_ in itc.generators for c in g_.ifs) and all(_pure_expr(g_.iter) for g_ in itc.generators[1:]):
            # (E for a in A for b in B) : the outer generators become outer loops
            inner = type(itc)(elt=itc.elt, generators=itc.generators[1:])
            g0 = itc.generators[0]
            tgt0 = copy.deepcopy(g0.target)
            for x in ast.walk(tgt0):
                if isinstance(x, (ast.Name, ast.Tuple, ast.List)):
                    x.ctx = ast.Store()
            inner_for = self.visit_For(ast.copy_location(ast.For(target=node.target, iter=inner, body=node.body, orelse=[], type_comment=None), node))
            body0 = inner_for if isinstance(inner_for, list) else [inner_for]
            if g0.ifs:
                test = g0.ifs[0] if len(g0.ifs) == 1 else ast.BoolOp(op=ast.And(), values=g0.ifs)
                body0 = [ast.copy_location(ast.If(test=test, body=body0, orelse=[]), node)]
            return ast.copy_location(ast.For(target=tgt0, iter=g0.iter, body=body0, orelse=[], type_comment=None), node)
        if isinstance(itc, (ast.ListComp, ast.GeneratorExp)) and len(itc.generators) == 1 and not node.orelse and _pure_expr(itc.elt) \
                and all(_pure_expr(c) for c in itc.generators[0].ifs):
            g = itc.generators[0]
            bound = {x.id for x in ast.walk(g.target) if isinstance(x, ast.Name)}
            tnames = {x.id for x in ast.walk(node.target) if isinstance(x, ast.Name)}
            stored = {x.id for s_ in node.body for x in ast.walk(s_) if isinstance(x, ast.Name) and isinstance(x.ctx, ast.Store)}
            # for (a, b, p) in [(a, b, E) for b in ..]: the positions that hand a generator variable back under its own name bind nothing new
            if (bound & tnames) and not (bound & stored) and isinstance(node.target, ast.Tuple) and isinstance(itc.elt, ast.Tuple) and len(node.target.elts) == len(itc.elt.elts) \
                    and all(isinstance(t, ast.Name) for t in node.target.elts) and len({t.id for t in node.target.elts}) == len(node.target.elts):
                same = [isinstance(e, ast.Name) and e.id == t.id for t, e in zip(node.target.elts, itc.elt.elts)]
                # every other position must not read a name that an earlier position of this very assignment would have re-bound: identity positions re-bind nothing
                if all(sm or t.id not in bound for t, sm in zip(node.target.elts, same)) and not all(same):
                    keep = [(t, e) for t, e, sm in zip(node.target.elts, itc.elt.elts, same) if not sm]
                    if len(keep) == 1:
                        node.target, itc.elt = keep[0]
                    else:
                        node.target = ast.Tuple(elts=[k[0] for k in keep], ctx=ast.Store())
                        itc.elt = ast.Tuple(elts=[k[1] for k in keep], ctx=ast.Load())
                    tnames = {x.id for x in ast.walk(node.target) if isinstance(x, ast.Name)}
            if not (bound & (tnames | stored)):
                tgt = copy.deepcopy(g.target)
                for x in ast.walk(tgt):
                    if isinstance(x, (ast.Name, ast.Tuple, ast.List)):
                        x.ctx = ast.Store()
                first = self.visit_Assign(ast.copy_location(ast.Assign(targets=[node.target], value=itc.elt, lineno=node.lineno), node))
                body = (first if isinstance(first, list) else [first]) + node.body
                if g.ifs:
                    test = g.ifs[0] if len(g.ifs) == 1 else ast.BoolOp(op=ast.And(), values=g.ifs)
                    body = [ast.copy_location(ast.If(test=test, body=body, orelse=[]), node)]
                node = ast.copy_location(ast.For(target=tgt, iter=g.iter, body=body, orelse=[], type_comment=None), node)
        # for i, e in enumerate(X): body (i unused)   ==>   for e in X: body
        it0 = node.iter
        if isinstance(it0, ast.Call) and isinstance(it0.func, ast.Name) and it0.func.id == "enumerate" and it0.args and isinstance(node.target, ast.Tuple) \
                and len(node.target.elts) == 2 and isinstance(node.target.elts[0], ast.Name) and not node.orelse:
            iv = node.target.elts[0].id
            if not any(isinstance(x, ast.Name) and x.id == iv for s_ in node.body for x in ast.walk(s_)):
                node = ast.copy_location(ast.For(target=node.target.elts[1], iter=it0.args[0], body=node.body, orelse=[], type_comment=None), node)
        # for v in X: a, b = v; body (v not used again)   ==>   for a, b in X: body
        if isinstance(node.target, ast.Name) and node.body and isinstance(node.body[0], ast.Assign) and len(node.body[0].targets) == 1 \
                and isinstance(node.body[0].targets[0], (ast.Tuple, ast.List)) and isinstance(node.body[0].value, ast.Name) and node.body[0].value.id == node.target.id \
                and all(isinstance(t, ast.Name) for t in node.body[0].targets[0].elts) and len(node.body) > 1 and not node.orelse \
                and not any(isinstance(x, ast.Name) and x.id == node.target.id for s_ in node.body[1:] for x in ast.walk(s_)):
            tgt = ast.Tuple(elts=[ast.Name(id=t.id, ctx=ast.Store()) for t in node.body[0].targets[0].elts], ctx=ast.Store())
            node = ast.copy_location(ast.For(target=tgt, iter=node.iter, body=node.body[1:], orelse=[], type_comment=None), node)
        # for n in range(a, len(L)): e = L[n]; ...   ==>   for n, e in enumerate(L[a:], start=a): ...
        it = node.iter
        if isinstance(node.target, ast.Name) and isinstance(it, ast.Call) and isinstance(it.func, ast.Name) and it.func.id == "range" \
                and not it.keywords and 1 <= len(it.args) <= 2 and not node.orelse:
            stop = it.args[-1]
            start = it.args[0] if len(it.args) == 2 else None
            if isinstance(stop, ast.Call) and isinstance(stop.func, ast.Name) and stop.func.id == "len" and len(stop.args) == 1:
                L = stop.args[0]
                ltxt = ast.unparse(L)
                n = node.target.id
                idx = f"{ltxt}[{n}]"
                body = node.body
                # the list and the index are not rebound / resized inside the loop
                for s in body:
                    for x in ast.walk(s):
                        if isinstance(x, ast.Name) and x.id == n and isinstance(x.ctx, ast.Store):
                            return node
                        if isinstance(x, ast.Call) and isinstance(x.func, ast.Attribute) and ast.unparse(x.func.value) == ltxt \
                                and x.func.attr in ("append", "remove", "pop", "insert", "clear", "extend", "sort", "reverse"):
                            return node
                        if isinstance(x, (ast.Subscript, ast.Attribute)) and isinstance(x.ctx, (ast.Store, ast.Del)) and ast.unparse(x) in (ltxt, idx):
                            return node
                elem = None
                if body and isinstance(body[0], ast.Assign) and len(body[0].targets) == 1 and isinstance(body[0].targets[0], ast.Name) \
                        and ast.unparse(body[0].value) == idx:
                    elem = body[0].targets[0].id
                    body = body[1:]
                    if any(isinstance(x, ast.Name) and x.id == elem and isinstance(x.ctx, ast.Store) for s in body for x in ast.walk(s)):
                        return node
                elif any(ast.unparse(x) == idx for s in body for x in ast.walk(s) if isinstance(x, ast.Subscript)):
                    elem = f"_elem_{n}"
                if elem is None:
                    return node

                class R(ast.NodeTransformer):
                    def visit_Subscript(self, x):
                        if ast.unparse(x) == idx and isinstance(x.ctx, ast.Load):
                            return ast.copy_location(ast.Name(id=elem, ctx=ast.Load()), x)
                        self.generic_visit(x)
                        return x

                body = [R().visit(s) for s in body] or [ast.Pass()]
                if start is None:
                    new_iter = ast.Call(func=ast.Name(id="enumerate", ctx=ast.Load()), args=[L], keywords=[])
                else:
                    sl = ast.Subscript(value=L, slice=ast.Slice(lower=start, upper=None, step=None), ctx=ast.Load())
                    new_iter = ast.Call(func=ast.Name(id="enumerate", ctx=ast.Load()), args=[sl], keywords=[ast.keyword(arg="start", value=copy.deepcopy(start))])
                tgt = ast.Tuple(elts=[ast.Name(id=n, ctx=ast.Store()), ast.Name(id=elem, ctx=ast.Store())], ctx=ast.Store())
                return ast.copy_location(ast.For(target=tgt, iter=new_iter, body=body, orelse=[], type_comment=None), node)
        return node


class AppendLoops(ast.NodeTransformer):
    """X = []; for T in IT: X.append(E)   ==>   X = [E for T in IT]      (also `if c: X.append(E)` -> filter)"""

    def _block(self, stmts):
        out = []
        i = 0
        # x = Cls(.., a=K, ..)            x.a = E      (next statement; K a literal placeholder; E does not mention x)
        # ==>  x = Cls(.., a=E, ..)       the object is created with the value it is given a line later
        k = 0
        while k + 1 < len(stmts):
            a, b = stmts[k], stmts[k + 1]
            if isinstance(a, ast.Assign) and len(a.targets) == 1 and isinstance(a.targets[0], ast.Name) and isinstance(a.value, ast.Call) and isinstance(a.value.func, ast.Name) \
                    and a.value.func.id in CLASS_NAMES and isinstance(b, ast.Assign) and len(b.targets) == 1 and isinstance(b.targets[0], ast.Attribute) \
                    and isinstance(b.targets[0].value, ast.Name) and b.targets[0].value.id == a.targets[0].id:
                kw = next((q for q in a.value.keywords if q.arg == b.targets[0].attr), None)
                if kw is not None and isinstance(kw.value, ast.Constant) and not any(isinstance(x, ast.Name) and x.id == a.targets[0].id for x in ast.walk(b.value)) \
                        and all(isinstance(q.value, (ast.Name, ast.Constant, ast.Attribute)) for q in a.value.keywords) and all(isinstance(q, (ast.Name, ast.Constant, ast.Attribute)) for q in a.value.args):
                    kw.value = b.value
                    stmts = stmts[:k + 1] + stmts[k + 2:]
                    continue
            k += 1
        # if C: A..; return [v]      raise X        ==>   if not C: raise X      A..; return [v]
        # (guard-clause form: the refusal first; both orders run exactly one of the two arms)
        if len(stmts) >= 2 and isinstance(stmts[-1], ast.Raise) and isinstance(stmts[-2], ast.If) and not stmts[-2].orelse and stmts[-2].body \
                and isinstance(stmts[-2].body[-1], ast.Return) and len(stmts[-2].body) > 1:
            iff = stmts[-2]
            flipped = ast.copy_location(ast.If(test=ast.UnaryOp(op=ast.Not(), operand=iff.test), body=[stmts[-1]], orelse=[]), iff)
            stmts = stmts[:-2] + [flipped] + list(iff.body)
        # try: BODY  except E as e: v = e  else: <exits>        AFTER..; raise v      ==>   try: BODY  except E as e: AFTER[v := e]..; raise e  else: <exits>
        # (the statements behind the try run only when the handler ran: an exception carried out of its handler in a local)
        for k_, t_ in enumerate(stmts):
            if isinstance(t_, ast.Try) and len(t_.handlers) == 1 and t_.handlers[0].name and not t_.finalbody and t_.orelse and always_exits(t_.orelse) \
                    and len(t_.handlers[0].body) == 1 and isinstance(t_.handlers[0].body[0], ast.Assign) and len(t_.handlers[0].body[0].targets) == 1 \
                    and isinstance(t_.handlers[0].body[0].targets[0], ast.Name) and isinstance(t_.handlers[0].body[0].value, ast.Name) \
                    and t_.handlers[0].body[0].value.id == t_.handlers[0].name:
                v_ = t_.handlers[0].body[0].targets[0].id
                e_ = t_.handlers[0].name
                rest_ = stmts[k_ + 1:]
                if rest_ and isinstance(rest_[-1], ast.Raise) and isinstance(rest_[-1].exc, ast.Name) and rest_[-1].exc.id == v_ and rest_[-1].cause is None \
                        and not any(isinstance(x, ast.Name) and x.id == v_ and isinstance(x.ctx, ast.Store) for s_ in rest_ for x in ast.walk(s_)) \
                        and not any(isinstance(x, ast.Name) and x.id == e_ for s_ in rest_ for x in ast.walk(s_)):
                    class V(ast.NodeTransformer):
                        def visit_Name(self, n):
                            return ast.copy_location(ast.Name(id=e_, ctx=n.ctx), n) if n.id == v_ else n
                    t_.handlers[0].body = [V().visit(s_) for s_ in rest_]
                    stmts = stmts[:k_ + 1]
                    break
        # try: x = E  except ..: raise ..        return x     ==>   try: return E  except ..: raise ..
        # (every handler leaves by raising, so the statement after the try runs only with x = E)
        if len(stmts) >= 2 and isinstance(stmts[-1], ast.Return) and isinstance(stmts[-1].value, ast.Name) and isinstance(stmts[-2], ast.Try):
            t = stmts[-2]
            if len(t.body) == 1 and isinstance(t.body[0], ast.Assign) and len(t.body[0].targets) == 1 and isinstance(t.body[0].targets[0], ast.Name) \
                    and t.body[0].targets[0].id == stmts[-1].value.id and not t.orelse and not t.finalbody and t.handlers \
                    and all(h.body and isinstance(h.body[-1], ast.Raise) for h in t.handlers):
                t.body = [ast.copy_location(ast.Return(value=t.body[0].value), t.body[0])]
                stmts = stmts[:-1]
        while i < len(stmts):
            st = stmts[i]
            nxt = stmts[i + 1] if i + 1 < len(stmts) else None
            if isinstance(st, ast.AnnAssign) and isinstance(st.target, ast.Name) and st.value is not None:
                st = ast.copy_location(ast.Assign(targets=[st.target], value=st.value, lineno=st.lineno), st)
            if isinstance(st, ast.Assign) and len(st.targets) == 1 and isinstance(st.targets[0], ast.Name) and isinstance(st.value, ast.List) and not st.value.elts \
                    and not (isinstance(nxt, ast.For)) and nxt is not None:
                # statements between `X = []` and its filling loop that do not mention X: move the empty list down to the loop
                x0 = st.targets[0].id
                j = i + 1
                while j < len(stmts) and isinstance(stmts[j], (ast.Assign, ast.AnnAssign, ast.Expr)) and not any(isinstance(n, ast.Name) and n.id == x0 for n in ast.walk(stmts[j])):
                    j += 1
                if j < len(stmts) and j > i + 1 and isinstance(stmts[j], ast.For) and not stmts[j].orelse and len(stmts[j].body) == 1 \
                        and any(isinstance(n, ast.Call) and isinstance(n.func, ast.Attribute) and n.func.attr == "append" and isinstance(n.func.value, ast.Name) and n.func.value.id == x0
                                for n in ast.walk(stmts[j])):
                    stmts = stmts[:i] + stmts[i + 1:j] + [st] + stmts[j:]
                    continue
            if isinstance(st, ast.Assign) and len(st.targets) == 1 and isinstance(st.targets[0], ast.Name) and isinstance(st.value, ast.List) and not st.value.elts \
                    and isinstance(nxt, ast.For) and not nxt.orelse and len(nxt.body) == 1:
                x = st.targets[0].id
                b = nxt.body[0]
                cond = None
                if isinstance(b, ast.If) and not b.orelse and len(b.body) == 1:
                    cond, b = b.test, b.body[0]
                if isinstance(b, ast.Expr) and isinstance(b.value, ast.Call) and isinstance(b.value.func, ast.Attribute) and b.value.func.attr == "append" \
                        and isinstance(b.value.func.value, ast.Name) and b.value.func.value.id == x and len(b.value.args) == 1 and not b.value.keywords:
                    e = b.value.args[0]
                    mentions = lambda node: any(isinstance(n, ast.Name) and n.id == x for n in ast.walk(node))
                    if not mentions(e) and not mentions(nxt.iter) and not (cond is not None and mentions(cond)):
                        comp = ast.ListComp(elt=e, generators=[ast.comprehension(target=nxt.target, iter=nxt.iter, ifs=[cond] if cond is not None else [], is_async=0)])
                        out.append(ast.copy_location(ast.Assign(targets=[st.targets[0]], value=comp, lineno=st.lineno), nxt))
                        i += 2
                        continue
            # X = [..]; ..; X.append(a); ..; X.append(b)   ==>   _x0 = a at its place, ..., X = [.., _x0, _x1] at the last append
            if isinstance(st, ast.Assign) and len(st.targets) == 1 and isinstance(st.targets[0], ast.Name) and isinstance(st.value, ast.List) \
                    and not any(isinstance(e, ast.Starred) for e in st.value.elts):
                x = st.targets[0].id
                run_, elems, j = [], list(st.value.elts), i + 1
                napp = 0
                while j < len(stmts):
                    s2 = stmts[j]
                    is_app = isinstance(s2, ast.Expr) and isinstance(s2.value, ast.Call) and isinstance(s2.value.func, ast.Attribute) and s2.value.func.attr == "append" \
                        and isinstance(s2.value.func.value, ast.Name) and s2.value.func.value.id == x and len(s2.value.args) == 1 and not s2.value.keywords \
                        and not any(isinstance(n, ast.Name) and n.id == x for n in ast.walk(s2.value.args[0]))
                    if is_app:
                        nm = f"_{x}{next(_counter)}"
                        run_.append(ast.copy_location(ast.Assign(targets=[ast.Name(id=nm, ctx=ast.Store())], value=s2.value.args[0], lineno=s2.lineno), s2))
                        elems.append(ast.Name(id=nm, ctx=ast.Load()))
                        napp += 1
                        j += 1
                        continue
                    if isinstance(s2, (ast.Assign, ast.Expr, ast.AugAssign, ast.AnnAssign)) and not any(isinstance(n, ast.Name) and n.id == x for n in ast.walk(s2)):
                        run_.append(s2)
                        j += 1
                        continue
                    break
                # trailing statements that do not append belong after the literal
                while run_ and not (isinstance(run_[-1], ast.Assign) and isinstance(run_[-1].targets[0], ast.Name) and run_[-1].targets[0].id.startswith(f"_{x}")):
                    run_.pop()
                    j -= 1
                if napp >= 2 or (napp == 1 and len(elems) <= 4 and not isinstance(stmts[j] if j < len(stmts) else None, ast.For)):
                    out += run_
                    out.append(ast.copy_location(ast.Assign(targets=[st.targets[0]], value=ast.List(elts=elems, ctx=ast.Load()), lineno=st.lineno), st))
                    i = j
                    continue
            # t = E ; X = t  |  return t      (t used nowhere else)   ==>   X = E | return E
            if isinstance(st, ast.Assign) and len(st.targets) == 1 and isinstance(st.targets[0], ast.Name) and nxt is not None \
                    and isinstance(nxt, (ast.Assign, ast.Return)) and isinstance(nxt.value, ast.Name) and nxt.value.id == st.targets[0].id \
                    and self.uses.get(st.targets[0].id) == (1, 1) and not (isinstance(nxt, ast.Assign) and any(isinstance(t, ast.Name) and t.id == st.targets[0].id for t in nxt.targets)):
                new = copy.copy(nxt)
                new.value = st.value
                out.append(ast.copy_location(new, st))
                i += 2
                continue
            # for T in IT: if C: return True   /  return False      ==>   return any(C for T in IT)
            if isinstance(st, ast.For) and not st.orelse and len(st.body) == 1 and isinstance(st.body[0], ast.If) and not st.body[0].orelse \
                    and len(st.body[0].body) == 1 and isinstance(st.body[0].body[0], ast.Return):
                r = st.body[0].body[0].value
                cond = st.body[0].test
                tnames = {x.id for x in ast.walk(st.target) if isinstance(x, ast.Name)}
                if isinstance(r, ast.Constant) and isinstance(r.value, bool) and isinstance(nxt, ast.Return) and isinstance(nxt.value, ast.Constant) \
                        and isinstance(nxt.value.value, bool) and nxt.value.value != r.value:
                    gen = ast.GeneratorExp(elt=cond, generators=[ast.comprehension(target=st.target, iter=st.iter, ifs=[], is_async=0)])
                    call = ast.Call(func=ast.Name(id="any", ctx=ast.Load()), args=[gen], keywords=[])
                    val = call if r.value else ast.UnaryOp(op=ast.Not(), operand=call)
                    out.append(ast.copy_location(ast.Return(value=val), st))
                    i += 2
                    continue
                # for T in IT: if C: return V      ==>   _t = next((V for T in IT if C), None); if _t is not None: return _t
                if r is not None and all(isinstance(x, ast.Name) and x.id in tnames for x in ([r] if isinstance(r, ast.Name) else (r.elts if isinstance(r, ast.Tuple) else [None]))):
                    tmp = f"_found{next(_counter)}"
                    gen = ast.GeneratorExp(elt=r, generators=[ast.comprehension(target=st.target, iter=st.iter, ifs=[cond], is_async=0)])
                    call = ast.Call(func=ast.Name(id="next", ctx=ast.Load()), args=[gen, ast.Constant(value=None)], keywords=[])
                    out.append(ast.copy_location(ast.Assign(targets=[ast.Name(id=tmp, ctx=ast.Store())], value=call, lineno=st.lineno), st))
                    test = ast.Compare(left=ast.Name(id=tmp, ctx=ast.Load()), ops=[ast.IsNot()], comparators=[ast.Constant(value=None)])
                    out.append(ast.copy_location(ast.If(test=test, body=[ast.Return(value=ast.Name(id=tmp, ctx=ast.Load()))], orelse=[]), st))
                    i += 1
                    continue
            # x = None; for T in IT: if C: x = V; break      ==>   x = next((V for T in IT if C), None)
            if isinstance(st, ast.Assign) and len(st.targets) == 1 and isinstance(st.targets[0], ast.Name) and isinstance(st.value, ast.Constant) and st.value.value is None \
                    and isinstance(nxt, ast.For) and not nxt.orelse and len(nxt.body) == 1 and isinstance(nxt.body[0], ast.If) and not nxt.body[0].orelse \
                    and len(nxt.body[0].body) == 2 and isinstance(nxt.body[0].body[1], ast.Break) and isinstance(nxt.body[0].body[0], ast.Assign) \
                    and len(nxt.body[0].body[0].targets) == 1 and isinstance(nxt.body[0].body[0].targets[0], ast.Name) \
                    and nxt.body[0].body[0].targets[0].id == st.targets[0].id:
                tnames = {x.id for x in ast.walk(nxt.target) if isinstance(x, ast.Name)}
                v = nxt.body[0].body[0].value
                if all(isinstance(x, ast.Name) and x.id in tnames for x in ([v] if isinstance(v, ast.Name) else (v.elts if isinstance(v, ast.Tuple) else [None]))):
                    gen = ast.GeneratorExp(elt=v, generators=[ast.comprehension(target=nxt.target, iter=nxt.iter, ifs=[nxt.body[0].test], is_async=0)])
                    call = ast.Call(func=ast.Name(id="next", ctx=ast.Load()), args=[gen, ast.Constant(value=None)], keywords=[])
                    out.append(ast.copy_location(ast.Assign(targets=[st.targets[0]], value=call, lineno=st.lineno), nxt))
                    i += 2
                    continue
            # x = K; for T in IT: [if C:] x += E      ==>   x = K + sum(E for T in IT [if C])
            if isinstance(st, ast.Assign) and len(st.targets) == 1 and isinstance(st.targets[0], ast.Name) and isinstance(st.value, ast.Constant) \
                    and isinstance(st.value.value, int) and not isinstance(st.value.value, bool) and isinstance(nxt, ast.For) and not nxt.orelse and len(nxt.body) == 1:
                x = st.targets[0].id
                b = nxt.body[0]
                cond = None
                if isinstance(b, ast.If) and not b.orelse and len(b.body) == 1:
                    cond, b = b.test, b.body[0]
                if isinstance(b, ast.AugAssign) and isinstance(b.op, ast.Add) and isinstance(b.target, ast.Name) and b.target.id == x \
                        and not any(isinstance(n, ast.Name) and n.id == x for n in ast.walk(b.value)) and not (cond is not None and any(isinstance(n, ast.Name) and n.id == x for n in ast.walk(cond))):
                    gen = ast.GeneratorExp(elt=b.value, generators=[ast.comprehension(target=nxt.target, iter=nxt.iter, ifs=[cond] if cond is not None else [], is_async=0)])
                    total = ast.Call(func=ast.Name(id="sum", ctx=ast.Load()), args=[gen], keywords=[])
                    val = total if st.value.value == 0 else ast.BinOp(left=st.value, op=ast.Add(), right=total)
                    out.append(ast.copy_location(ast.Assign(targets=[st.targets[0]], value=val, lineno=st.lineno), nxt))
                    i += 2
                    continue
            # for x in IT: if C: break   else: S(exits)      ==>   x = next((x for x in IT if C), None); if x is None: S
            if isinstance(st, ast.For) and st.orelse and always_exits(st.orelse) and isinstance(st.target, ast.Name) and len(st.body) == 1 \
                    and isinstance(st.body[0], ast.If) and not st.body[0].orelse and len(st.body[0].body) == 1 and isinstance(st.body[0].body[0], ast.Break):
                x = st.target.id
                loads_here = sum(1 for n_ in ast.walk(st) if isinstance(n_, ast.Name) and n_.id == x and isinstance(n_.ctx, ast.Load))
                if self.uses.get(x, (0, 0))[1] <= loads_here and not any(isinstance(n_, ast.Name) and n_.id == x for s_ in stmts[i + 1:] for n_ in ast.walk(s_)):
                    # the element found is read nowhere else in the function (also not behind an enclosing statement): only whether one exists matters
                    anyc = ast.Call(func=ast.Name(id="any", ctx=ast.Load()), keywords=[],
                                    args=[ast.GeneratorExp(elt=st.body[0].test, generators=[ast.comprehension(target=ast.Name(id=x, ctx=ast.Store()), iter=st.iter, ifs=[], is_async=0)])])
                    out.append(ast.copy_location(ast.If(test=ast.UnaryOp(op=ast.Not(), operand=anyc), body=st.orelse, orelse=[]), st))
                    i += 1
                    continue
                gen = ast.GeneratorExp(elt=ast.Name(id=x, ctx=ast.Load()), generators=[ast.comprehension(target=ast.Name(id=x, ctx=ast.Store()), iter=st.iter, ifs=[st.body[0].test], is_async=0)])
                call = ast.Call(func=ast.Name(id="next", ctx=ast.Load()), args=[gen, ast.Constant(value=None)], keywords=[])
                out.append(ast.copy_location(ast.Assign(targets=[ast.Name(id=x, ctx=ast.Store())], value=call, lineno=st.lineno), st))
                test = ast.Compare(left=ast.Name(id=x, ctx=ast.Load()), ops=[ast.Is()], comparators=[ast.Constant(value=None)])
                out.append(ast.copy_location(ast.If(test=test, body=st.orelse, orelse=[]), st))
                i += 1
                continue
            # for T in IT: if C: x = V; break    else: S      ==>   x = next((V for T in IT if C), None); if x is None: S
            if isinstance(st, ast.For) and st.orelse and len(st.body) == 1 and isinstance(st.body[0], ast.If) and not st.body[0].orelse \
                    and len(st.body[0].body) == 2 and isinstance(st.body[0].body[1], ast.Break) and isinstance(st.body[0].body[0], ast.Assign) \
                    and len(st.body[0].body[0].targets) == 1 and isinstance(st.body[0].body[0].targets[0], ast.Name):
                asg = st.body[0].body[0]
                tnames = {x.id for x in ast.walk(st.target) if isinstance(x, ast.Name)}
                v = asg.value
                if all(isinstance(x, ast.Name) and x.id in tnames for x in ([v] if isinstance(v, ast.Name) else (v.elts if isinstance(v, ast.Tuple) else [None]))) \
                        and always_exits(st.orelse):
                    x = asg.targets[0].id
                    gen = ast.GeneratorExp(elt=v, generators=[ast.comprehension(target=st.target, iter=st.iter, ifs=[st.body[0].test], is_async=0)])
                    call = ast.Call(func=ast.Name(id="next", ctx=ast.Load()), args=[gen, ast.Constant(value=None)], keywords=[])
                    out.append(ast.copy_location(ast.Assign(targets=[ast.Name(id=x, ctx=ast.Store())], value=call, lineno=st.lineno), st))
                    test = ast.Compare(left=ast.Name(id=x, ctx=ast.Load()), ops=[ast.Is()], comparators=[ast.Constant(value=None)])
                    out.append(ast.copy_location(ast.If(test=test, body=st.orelse, orelse=[]), st))
                    i += 1
                    continue
            out.append(st)
            i += 1
        return out

    uses = {}

    def visit_FunctionDef(self, node):
        prev = self.uses
        u = {}
        for n in ast.walk(node):
            if isinstance(n, ast.Name):
                s_, l_ = u.get(n.id, (0, 0))
                u[n.id] = (s_ + 1, l_) if isinstance(n.ctx, (ast.Store, ast.Del)) else (s_, l_ + 1)
        self.uses = u
        self.generic_visit(node)
        self.uses = prev
        return node

    def generic_visit(self, node):
        super().generic_visit(node)
        if isinstance(node, ast.ExceptHandler):
            node.body = self._block(node.body)
        for fld in ("body", "orelse", "finalbody"):
            sub = getattr(node, fld, None)
            if isinstance(sub, list) and sub and isinstance(sub[0], ast.stmt):
                setattr(node, fld, self._block(sub))
        return node


def prune_dead(tree):
    """statements after an unconditional raise / return / break / continue, and `pass` next to other statements"""
    for n in ast.walk(tree):
        for fld in ("body", "orelse", "finalbody"):
            sub = getattr(n, fld, None)
            if isinstance(sub, list) and sub and isinstance(sub[0], ast.stmt):
                out = []
                for st in sub:
                    out.append(st)
                    if isinstance(st, (ast.Raise, ast.Return, ast.Break, ast.Continue)):
                        break
                if len(out) > 1:
                    out = [st for st in out if not isinstance(st, ast.Pass)] or [out[0]]
                if len(out) != len(sub):
                    setattr(n, fld, out)


# ------------------------------------------------------------------------------------------- N9 collect-then-consume
class CollectionReplay:
    """X = []
       for ..: (.. if c: .. X.append(e) ..)          the loop also does other things
       S*
       for p in X: BODY                               the only other use of X
    ->  the first loop without the append, S*, and for the second loop the SKELETON of the first (its for / if statements and
    pure local bindings on the way to the append) with `p = e; BODY` in the place of the append.
    Sound when everything in the skeleton is pure, the dropped statements of the first loop and S* cannot change what the
    skeleton reads (same may-kill test as copy propagation), and BODY itself cannot either (it runs between evaluations)."""

    def run(self, fn):
        changed = False
        for node in ast.walk(fn):
            for fld in ("body", "orelse", "finalbody"):
                blk = getattr(node, fld, None)
                if isinstance(blk, list) and blk and isinstance(blk[0], ast.stmt):
                    new = self._block(fn, blk)
                    if new is not None:
                        setattr(node, fld, new)
                        changed = True
        return changed

    def _block(self, fn, blk):
        for i, st in enumerate(blk):
            if not (isinstance(st, ast.Assign) and len(st.targets) == 1 and isinstance(st.targets[0], ast.Name) and isinstance(st.value, ast.List) and not st.value.elts):
                continue
            X = st.targets[0].id
            uses = [n for n in ast.walk(fn) if isinstance(n, ast.Name) and n.id == X]
            if len(uses) != 3:
                continue
            # producer: the next for statement; consumer: a later `for p in X`
            prod = next((j for j in range(i + 1, len(blk)) if isinstance(blk[j], ast.For)), None)
            if prod is None or any(isinstance(n, ast.Name) and n.id == X for k in range(i + 1, prod) for n in ast.walk(blk[k])):
                continue
            cons = next((j for j in range(prod + 1, len(blk)) if isinstance(blk[j], ast.For) and isinstance(blk[j].iter, ast.Name) and blk[j].iter.id == X), None)
            if cons is None or blk[cons].orelse or not isinstance(blk[cons].target, (ast.Name, ast.Tuple)):
                continue
            L1, L2 = blk[prod], blk[cons]
            apps = [n for n in ast.walk(L1) if isinstance(n, ast.Expr) and isinstance(n.value, ast.Call) and isinstance(n.value.func, ast.Attribute)
                    and n.value.func.attr == "append" and isinstance(n.value.func.value, ast.Name) and n.value.func.value.id == X and len(n.value.args) == 1]
            if len(apps) != 1:
                continue
            app = apps[0]
            e = app.value.args[0]
            if not _pure_expr(e):
                continue
            if any(isinstance(n, (ast.Break, ast.Continue, ast.Return, ast.Raise, ast.Try, ast.While, ast.With)) for n in ast.walk(L1)):
                continue
            if any(isinstance(n, (ast.Break, ast.Continue)) for n in ast.walk(L2)):
                continue
            dropped = []

            def skel(stmts):
                """(copy of the statements leading to the append, found?)"""
                out = []
                found = False
                for k, s_ in enumerate(stmts):
                    if s_ is app:
                        out.append("HOLE")
                        found = True
                        dropped.extend(stmts[k + 1:])
                        break
                    has = any(n is app for n in ast.walk(s_))
                    if isinstance(s_, ast.For) and has:
                        if s_.orelse or not _pure_expr(s_.iter):
                            return None, False
                        inner, ok = skel(s_.body)
                        if not ok:
                            return None, False
                        out.append(ast.For(target=copy.deepcopy(s_.target), iter=copy.deepcopy(s_.iter), body=inner, orelse=[]))
                        found = True
                        dropped.extend(stmts[k + 1:])
                        break
                    if isinstance(s_, ast.If) and has:
                        if not _pure_expr(s_.test):
                            return None, False
                        in_body = any(n is app for b in s_.body for n in ast.walk(b))
                        inner, ok = skel(s_.body if in_body else s_.orelse)
                        if not ok:
                            return None, False
                        dropped.extend(s_.orelse if in_body else s_.body)
                        test = copy.deepcopy(s_.test) if in_body else ast.UnaryOp(op=ast.Not(), operand=copy.deepcopy(s_.test))
                        out.append(ast.If(test=test, body=inner, orelse=[]))
                        found = True
                        dropped.extend(stmts[k + 1:])
                        break
                    if isinstance(s_, ast.Assign) and len(s_.targets) == 1 and isinstance(s_.targets[0], ast.Name) and _pure_expr(s_.value):
                        out.append(copy.deepcopy(s_))
                        continue
                    dropped.append(s_)
                return out, found

            inner, ok = skel(L1.body)
            if not ok or not _pure_expr(L1.iter) or L1.orelse:
                continue
            sk = ast.For(target=copy.deepcopy(L1.target), iter=copy.deepcopy(L1.iter), body=inner, orelse=[])
            # what the skeleton reads
            probe = ast.Module(body=[sk], type_ignores=[])
            paths, names = set(), set()
            bound = set()
            for n in ast.walk(probe):
                if isinstance(n, ast.expr) and not isinstance(n, ast.Name):
                    pass
            for n in ast.walk(probe):
                if isinstance(n, (ast.For, ast.If, ast.Assign)):
                    for x in ([n.iter] if isinstance(n, ast.For) else [n.test] if isinstance(n, ast.If) else [n.value]):
                        p_, n_ = _paths_read(x)
                        paths |= p_
                        names |= n_
                if isinstance(n, ast.For):
                    bound |= {t.id for t in ast.walk(n.target) if isinstance(t, ast.Name)}
                if isinstance(n, ast.Assign):
                    bound |= {t.id for t in ast.walk(n.targets[0]) if isinstance(t, ast.Name)}
            p_, n_ = _paths_read(e)
            paths |= p_
            names |= n_
            attrs = {q.rsplit(".", 1)[1] for q in paths if "." in q}
            # names bound by the skeleton are re-bound by the replay; the others must survive the dropped statements, S* and BODY
            free = names - bound
            stored_elsewhere = [s_ for s_ in dropped + blk[prod + 1:cons] + list(L2.body)]
            if any(_kills(s_, paths, free | bound, attrs) for s_ in stored_elsewhere):
                continue
            # the replay's own names must not be live in BODY / after (they are re-bound): refuse when BODY reads or writes them
            body_names = {n.id for b in L2.body for n in ast.walk(b) if isinstance(n, ast.Name)}
            tnames = {t.id for t in ast.walk(L2.target) if isinstance(t, ast.Name)}
            if (bound - tnames) & body_names:
                continue
            later = {n.id for s_ in blk[cons + 1:] for n in ast.walk(s_) if isinstance(n, ast.Name) and isinstance(n.ctx, ast.Load)}
            if bound & later:
                continue
            hole = [ast.Assign(targets=[copy.deepcopy(L2.target)], value=copy.deepcopy(e))] + list(L2.body)
            if isinstance(L2.target, ast.Name) and isinstance(e, ast.Name) and e.id == L2.target.id:
                hole = list(L2.body)

            def fill(stmts):
                out = []
                for s_ in stmts:
                    if s_ == "HOLE":
                        out += hole
                    else:
                        if isinstance(s_, (ast.For, ast.If)):
                            s_.body = fill(s_.body)
                        out.append(s_)
                return out

            sk.body = fill(sk.body)

            class Drop(ast.NodeTransformer):
                def visit_Expr(self, node):
                    return None if node is app else node

            Drop().visit(L1)
            for n in ast.walk(L1):
                for fld in ("body", "orelse"):
                    if isinstance(getattr(n, fld, None), list) and fld == "body" and not n.body:
                        n.body = [ast.Pass()]
            new = blk[:i] + blk[i + 1:cons] + [ast.copy_location(sk, L2)] + blk[cons + 1:]
            for n in ast.walk(sk):
                if not hasattr(n, "lineno"):
                    ast.copy_location(n, L2)
            return new
        return None


def normalise_functions(tree, _depth=0):
    prune_dead(tree)
    for node in ast.walk(tree):
        if isinstance(node, ast.FunctionDef):
            for _ in range(3):
                if not CollectionReplay().run(node):
                    break
            ast.fix_missing_locations(node)
    AppendLoops().visit(tree)
    Canon().visit(tree)
    from .normalize2 import WhileToFor, transpose_views
    WhileToFor().run(tree)      # counters whose initialisation was part of a tuple assignment until Canon split it
    transpose_views(tree)
    n = 0
    for node in ast.walk(tree):
        if isinstance(node, ast.FunctionDef):
            SSARename().run(node)
            BranchLocalRename().run(node)
            for _ in range(4):
                if not CopyProp().run(node):
                    break
                n += 1
    from .normalize2 import Desugar
    ast.fix_missing_locations(tree)
    before = ast.dump(tree)
    transpose_views(tree)   # `v = X.T` has been propagated into `v[i, j]` by now
    Desugar().visit(tree)   # forms that only appear once values have been propagated: partial(f, a)(b), attrgetter("x")(e), ...
    Canon().visit(tree)
    if _depth < 2 and ast.dump(tree) != before:
        # the desugared forms can introduce bindings of their own (`cell = (i, j)` of a product loop): propagate those too
        ast.fix_missing_locations(tree)
        n += normalise_functions(tree, _depth + 1)
    return n
