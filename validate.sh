#!/bin/sh
# validates MANIFEST.json and every evidence file against the harness schemas (tooling venv has jsonschema)
cd "$(dirname "$0")"
python3-vt - <<'PY'
import json,glob,jsonschema
jsonschema.validate(json.load(open('MANIFEST.json')), json.load(open('/root/.vp/MANIFEST.schema.json')))
s=json.load(open('/root/.vp/EVIDENCE.schema.json'))
for f in sorted(glob.glob('evidence/*.json')):
    jsonschema.validate(json.load(open(f)), s)
print('schemas ok:', len(glob.glob('evidence/*.json')), 'evidence files')
PY
